package interp

import (
	"go/token"
	"go/types"

	"golang.org/x/tools/go/ssa"

	"symgo/smt"
)

// Model of github.com/RoaringBitmap/roaring/v2 for symbolic runs: a bitmap is one bmW-bit vector
// (bit i set <=> i in the set), so document numbers must stay below bmW (checked: a feasible value
// >= bmW is an "unsupported" outcome, never silently wrapped). Native replays use the real library.

const roaringPkg = "github.com/RoaringBitmap/roaring/v2"
const bmW = 16 // model width: document numbers 0..15

func (in *Interp) bmGet(pos token.Pos, v Value) *Bitmap {
	p, ok := v.(Ptr)
	if !ok {
		unsupported("roaring: receiver %T", v)
	}
	if p.C == nil {
		in.rtPanic(pos, "invalid memory address or nil pointer dereference (nil *roaring.Bitmap)")
	}
	switch b := (*p.C).(type) {
	case *Bitmap:
		return b
	case Struct:
		// zero value roaring.Bitmap
		return &Bitmap{Bits: in.tb.BV(bmW, 0)}
	}
	unsupported("roaring: cell holds %T", *p.C)
	return nil
}

func (in *Interp) bmSet(v Value, bits *smt.Term) {
	p := v.(Ptr)
	in.journalCell(p.C)
	*p.C = &Bitmap{Bits: bits}
}

func (in *Interp) bmNew(bits *smt.Term) Value {
	c := new(Value)
	*c = &Bitmap{Bits: bits}
	return Ptr{c}
}

// bmBit returns the one-hot vector for element x (any integer width), checking x < 64.
func (in *Interp) bmBit(x *smt.Term) *smt.Term {
	x64 := in.tb.Resize(x, 64, false)
	if !in.branch(in.tb.Cmp(smt.OpUlt, x64, in.tb.BV(64, bmW))) {
		unsupported("roaring model: element %s may exceed the model width %d", x, bmW)
	}
	return in.tb.Extract(in.tb.Bin(smt.OpShl, in.tb.BV(64, 1), x64), bmW-1, 0)
}

func (in *Interp) bmIterType() types.Type {
	pkg := in.prog.ImportedPackage(roaringPkg)
	if pkg == nil {
		unsupported("roaring package not loaded")
	}
	t := pkg.Type("intIterator")
	if t == nil {
		unsupported("roaring.intIterator not found")
	}
	return types.NewPointer(t.Type())
}

// lowestFrom returns the index of the lowest set bit of bits at position >= pos (BV64), or 64.
func (in *Interp) lowestFrom(bits, pos *smt.Term) *smt.Term {
	res := in.tb.BV(64, bmW)
	for i := bmW - 1; i >= 0; i-- {
		set := in.tb.Eq(in.tb.Extract(bits, i, i), in.tb.BV(1, 1))
		ok := in.tb.And(set, in.tb.Cmp(smt.OpUle, pos, in.tb.BV(64, uint64(i))))
		res = in.tb.Ite(ok, in.tb.BV(64, uint64(i)), res)
	}
	return res
}

func init() {
	R := func(name string, f Intercept) { reg(roaringPkg+"."+name, f) }
	M := func(name string, f Intercept) { reg("(*"+roaringPkg+".Bitmap)."+name, f) }
	I := func(name string, f Intercept) { reg("(*"+roaringPkg+".intIterator)."+name, f) }

	reg(RTPkg+".BitmapFromBits", func(in *Interp, caller *frame, pos token.Pos, fn *ssa.Function, args []Value) Value {
		in.noteUsed("roaring bitmap model (16-bit vector)")
		b := term(args[0])
		if !in.branch(in.tb.Eq(in.tb.Bin(smt.OpLShr, b, in.tb.BV(64, bmW)), in.tb.BV(64, 0))) {
			unsupported("roaring model: BitmapFromBits with members >= %d", bmW)
		}
		return in.bmNew(in.tb.Extract(b, bmW-1, 0))
	})
	reg(RTPkg+".BitmapBits", func(in *Interp, caller *frame, pos token.Pos, fn *ssa.Function, args []Value) Value {
		if p, ok := args[0].(Ptr); ok && p.C == nil {
			return in.tb.BV(64, 0)
		}
		return in.tb.ZExt(in.bmGet(pos, args[0]).Bits, 64)
	})
	newBM := func(in *Interp, caller *frame, pos token.Pos, fn *ssa.Function, args []Value) Value {
		in.noteUsed("roaring bitmap model (16-bit vector)")
		return in.bmNew(in.tb.BV(bmW, 0))
	}
	R("New", newBM)
	R("NewBitmap", newBM)
	R("BitmapOf", func(in *Interp, caller *frame, pos token.Pos, fn *ssa.Function, args []Value) Value {
		bits := in.tb.BV(bmW, 0)
		for _, x := range args[0].(Slice) {
			bits = in.tb.Bin(smt.OpBOr, bits, in.bmBit(term(x)))
		}
		return in.bmNew(bits)
	})
	bin := func(op func(in *Interp, a, b *smt.Term) *smt.Term) Intercept {
		return func(in *Interp, caller *frame, pos token.Pos, fn *ssa.Function, args []Value) Value {
			a, b := in.bmGet(pos, args[0]), in.bmGet(pos, args[1])
			return in.bmNew(op(in, a.Bits, b.Bits))
		}
	}
	and := func(in *Interp, a, b *smt.Term) *smt.Term { return in.tb.Bin(smt.OpBAnd, a, b) }
	or := func(in *Interp, a, b *smt.Term) *smt.Term { return in.tb.Bin(smt.OpBOr, a, b) }
	andNot := func(in *Interp, a, b *smt.Term) *smt.Term { return in.tb.Bin(smt.OpBAnd, a, in.tb.BNot(b)) }
	xor := func(in *Interp, a, b *smt.Term) *smt.Term { return in.tb.Bin(smt.OpBXor, a, b) }
	R("And", bin(and))
	R("Or", bin(or))
	R("AndNot", bin(andNot))
	R("Xor", bin(xor))
	multi := func(op func(in *Interp, a, b *smt.Term) *smt.Term, unit uint64) Intercept {
		return func(in *Interp, caller *frame, pos token.Pos, fn *ssa.Function, args []Value) Value {
			bits := in.tb.BV(bmW, unit)
			first := true
			for _, b := range args[0].(Slice) {
				bb := in.bmGet(pos, b).Bits
				if first && unit != 0 {
					bits = bb
				} else {
					bits = op(in, bits, bb)
				}
				first = false
			}
			if first {
				bits = in.tb.BV(bmW, 0)
			}
			return in.bmNew(bits)
		}
	}
	R("HeapOr", multi(or, 0))
	R("FastOr", multi(or, 0))
	R("FastAnd", multi(and, 1<<bmW-1))
	inplace := func(op func(in *Interp, a, b *smt.Term) *smt.Term) Intercept {
		return func(in *Interp, caller *frame, pos token.Pos, fn *ssa.Function, args []Value) Value {
			a, b := in.bmGet(pos, args[0]), in.bmGet(pos, args[1])
			in.bmSet(args[0], op(in, a.Bits, b.Bits))
			return nil
		}
	}
	M("And", inplace(and))
	M("Or", inplace(or))
	M("AndNot", inplace(andNot))
	M("Xor", inplace(xor))
	add := func(in *Interp, caller *frame, pos token.Pos, fn *ssa.Function, args []Value) Value {
		a := in.bmGet(pos, args[0])
		in.bmSet(args[0], in.tb.Bin(smt.OpBOr, a.Bits, in.bmBit(term(args[1]))))
		return nil
	}
	M("Add", add)
	M("AddInt", add)
	M("CheckedAdd", func(in *Interp, caller *frame, pos token.Pos, fn *ssa.Function, args []Value) Value {
		a := in.bmGet(pos, args[0])
		bit := in.bmBit(term(args[1]))
		had := in.tb.Ne(in.tb.Bin(smt.OpBAnd, a.Bits, bit), in.tb.BV(bmW, 0))
		in.bmSet(args[0], in.tb.Bin(smt.OpBOr, a.Bits, bit))
		return in.tb.Not(had)
	})
	M("AddMany", func(in *Interp, caller *frame, pos token.Pos, fn *ssa.Function, args []Value) Value {
		a := in.bmGet(pos, args[0])
		bits := a.Bits
		for _, x := range args[1].(Slice) {
			bits = in.tb.Bin(smt.OpBOr, bits, in.bmBit(term(x)))
		}
		in.bmSet(args[0], bits)
		return nil
	})
	M("AddRange", func(in *Interp, caller *frame, pos token.Pos, fn *ssa.Function, args []Value) Value {
		a := in.bmGet(pos, args[0])
		lo, hi := in.concreteInt(args[1], "AddRange start"), in.concreteInt(args[2], "AddRange end")
		if hi > bmW {
			unsupported("roaring model: AddRange end %d exceeds the model width", hi)
		}
		bits := a.Bits
		for i := lo; i < hi; i++ {
			bits = in.tb.Bin(smt.OpBOr, bits, in.tb.BV(bmW, uint64(1)<<uint(i)))
		}
		in.bmSet(args[0], bits)
		return nil
	})
	M("Remove", func(in *Interp, caller *frame, pos token.Pos, fn *ssa.Function, args []Value) Value {
		a := in.bmGet(pos, args[0])
		in.bmSet(args[0], in.tb.Bin(smt.OpBAnd, a.Bits, in.tb.BNot(in.bmBit(term(args[1])))))
		return nil
	})
	M("Clear", func(in *Interp, caller *frame, pos token.Pos, fn *ssa.Function, args []Value) Value {
		in.bmSet(args[0], in.tb.BV(bmW, 0))
		return nil
	})
	M("Contains", func(in *Interp, caller *frame, pos token.Pos, fn *ssa.Function, args []Value) Value {
		a := in.bmGet(pos, args[0])
		x64 := in.tb.Resize(term(args[1]), 64, false)
		inRange := in.tb.Cmp(smt.OpUlt, x64, in.tb.BV(64, bmW))
		bit := in.tb.Bin(smt.OpBAnd, in.tb.Bin(smt.OpLShr, in.tb.ZExt(a.Bits, 64), x64), in.tb.BV(64, 1))
		return in.tb.And(inRange, in.tb.Eq(bit, in.tb.BV(64, 1)))
	})
	M("IsEmpty", func(in *Interp, caller *frame, pos token.Pos, fn *ssa.Function, args []Value) Value {
		return in.tb.Eq(in.bmGet(pos, args[0]).Bits, in.tb.BV(bmW, 0))
	})
	M("GetCardinality", func(in *Interp, caller *frame, pos token.Pos, fn *ssa.Function, args []Value) Value {
		return in.tb.ZExt(in.tb.Popcount(in.bmGet(pos, args[0]).Bits), 64)
	})
	M("GetSizeInBytes", func(in *Interp, caller *frame, pos token.Pos, fn *ssa.Function, args []Value) Value {
		return in.tb.BV(64, 8)
	})
	M("GetSerializedSizeInBytes", func(in *Interp, caller *frame, pos token.Pos, fn *ssa.Function, args []Value) Value {
		return in.tb.BV(64, 8)
	})
	M("Clone", func(in *Interp, caller *frame, pos token.Pos, fn *ssa.Function, args []Value) Value {
		return in.bmNew(in.bmGet(pos, args[0]).Bits)
	})
	M("Equals", func(in *Interp, caller *frame, pos token.Pos, fn *ssa.Function, args []Value) Value {
		o, ok := args[1].(Iface)
		if !ok {
			unsupported("roaring Equals arg %T", args[1])
		}
		return in.tb.Eq(in.bmGet(pos, args[0]).Bits, in.bmGet(pos, o.V).Bits)
	})
	M("Minimum", func(in *Interp, caller *frame, pos token.Pos, fn *ssa.Function, args []Value) Value {
		return in.tb.Extract(in.lowestFrom(in.bmGet(pos, args[0]).Bits, in.tb.BV(64, 0)), 31, 0)
	})
	M("Maximum", func(in *Interp, caller *frame, pos token.Pos, fn *ssa.Function, args []Value) Value {
		return in.tb.Extract(in.tb.Sub(in.bitLen(in.tb.ZExt(in.bmGet(pos, args[0]).Bits, 64)), in.tb.BV(64, 1)), 31, 0)
	})
	M("ToArray", func(in *Interp, caller *frame, pos token.Pos, fn *ssa.Function, args []Value) Value {
		a := in.bmGet(pos, args[0])
		out := Slice{}
		for i := 0; i < bmW; i++ {
			set := in.tb.Eq(in.tb.Extract(a.Bits, i, i), in.tb.BV(1, 1))
			if in.branch(set) {
				out = append(out, in.tb.BV(32, uint64(i)))
			}
		}
		return out
	})
	iter := func(in *Interp, caller *frame, pos token.Pos, fn *ssa.Function, args []Value) Value {
		a := in.bmGet(pos, args[0])
		c := new(Value)
		*c = &BitmapIter{BM: &Bitmap{Bits: a.Bits}, Pos: in.tb.BV(64, 0)}
		return Iface{T: in.bmIterType(), V: Ptr{c}}
	}
	M("Iterator", iter)
	itOf := func(in *Interp, v Value) (*BitmapIter, *Value) {
		p, ok := v.(Ptr)
		if !ok || p.C == nil {
			unsupported("roaring iterator receiver %T", v)
		}
		it, ok := (*p.C).(*BitmapIter)
		if !ok {
			unsupported("roaring iterator cell holds %T", *p.C)
		}
		return it, p.C
	}
	I("HasNext", func(in *Interp, caller *frame, pos token.Pos, fn *ssa.Function, args []Value) Value {
		it, _ := itOf(in, args[0])
		return in.tb.Ne(in.lowestFrom(it.BM.Bits, it.Pos), in.tb.BV(64, bmW))
	})
	I("PeekNext", func(in *Interp, caller *frame, pos token.Pos, fn *ssa.Function, args []Value) Value {
		it, _ := itOf(in, args[0])
		return in.tb.Extract(in.lowestFrom(it.BM.Bits, it.Pos), 31, 0)
	})
	I("Next", func(in *Interp, caller *frame, pos token.Pos, fn *ssa.Function, args []Value) Value {
		it, c := itOf(in, args[0])
		x := in.lowestFrom(it.BM.Bits, it.Pos)
		in.journalCell(c)
		*c = &BitmapIter{BM: it.BM, Pos: in.tb.Add(x, in.tb.BV(64, 1))}
		return in.tb.Extract(x, 31, 0)
	})
	I("AdvanceIfNeeded", func(in *Interp, caller *frame, pos token.Pos, fn *ssa.Function, args []Value) Value {
		it, c := itOf(in, args[0])
		m := in.tb.Resize(term(args[1]), 64, false)
		np := in.tb.Ite(in.tb.Cmp(smt.OpUlt, it.Pos, m), m, it.Pos)
		in.journalCell(c)
		*c = &BitmapIter{BM: it.BM, Pos: np}
		return nil
	})
}
