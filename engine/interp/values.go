// Package interp: a symbolic interpreter for go/ssa.
package interp

import (
	"fmt"
	"go/types"
	"strings"

	"golang.org/x/tools/go/ssa"

	"symgo/smt"
)

// Value is one of:
//
//	*smt.Term  scalar: Bool, or BV(w) for integers and (as IEEE bit patterns) floats
//	Str        string
//	Ptr        pointer to a cell (nil pointer: C == nil)
//	SymPtr     pointer to an element (and sub-path) of a slice/array at a symbolic index
//	Struct, Array   aggregates with value semantics
//	Slice      Go slice (nil slice = Slice(nil))
//	*Map, *Chan, *Closure, *ssa.Builtin
//	Iface      interface value (nil interface: T == nil)
//	Tuple      multiple results
//	special executor objects (*Bitmap, RType, Poison, ...)
type Value = any

type Str struct {
	S      string
	B      []*smt.Term // when non-nil: symbolic bytes (BV8 each), S unused
	Opaque bool        // content is not faithful (formatted with symbolic arguments); inspecting it is unsupported
}

func (s Str) Len() int {
	if s.B != nil {
		return len(s.B)
	}
	return len(s.S)
}

func (s Str) IsConcrete() bool {
	if s.B == nil {
		return true
	}
	for _, b := range s.B {
		if !b.IsConst() {
			return false
		}
	}
	return true
}

func (s Str) Concrete() string {
	if s.B == nil {
		return s.S
	}
	bs := make([]byte, len(s.B))
	for i, b := range s.B {
		bs[i] = byte(b.C)
	}
	return string(bs)
}

type Ptr struct{ C *Value }

type SymPtr struct {
	Elems []Value
	Idx   *smt.Term // BV64, assumed in range by the path condition
	Path  []int     // field/element path inside the element
}

type Struct []Value
type Array []Value
type Slice []Value
type Tuple []Value

type Iface struct {
	T types.Type
	V Value
}

type Closure struct {
	Fn  *ssa.Function
	Env []Value
}

type MapEntry struct {
	K, V Value
}

type Map struct {
	KT, VT  types.Type
	Entries []*MapEntry
}

type Chan struct {
	Buf    []Value
	Cap    int
	Closed bool
	ET     types.Type
	// bookkeeping for unbuffered rendezvous
	recvWaiting int
	sent, recvd int
}

type MapIter struct {
	M    *Map
	Snap []*MapEntry
	I    int
	S    Str
	IsS  bool
}

// Poison marks a value that could not be computed during tolerant package initialisation.
type Poison struct{ Why string }

// RType is the result of reflect.TypeOf (only Size is supported).
type RType struct{ T types.Type }

// SliceDataPtr is the result of unsafe.SliceData / unsafe.StringData.
type SliceDataPtr struct {
	S   Slice
	Str Str
	IsS bool
}

// Bitmap is the executor's model of *roaring.Bitmap: bit i of Bits set <=> i in the set (W = 64).
type Bitmap struct{ Bits *smt.Term }

type BitmapIter struct {
	BM  *Bitmap
	Pos *smt.Term // BV64: next candidate position (0..64)
}

type Unsupported struct{ Msg string }

func (u Unsupported) Error() string { return "unsupported: " + u.Msg }

func unsupported(format string, args ...any) {
	panic(Unsupported{fmt.Sprintf(format, args...)})
}

// ---------- type helpers ----------

var sizes = types.SizesFor("gc", "amd64")

func scalarWidth(t types.Type) (w int, signed, isFloat, ok bool) {
	b, isB := t.Underlying().(*types.Basic)
	if !isB {
		return 0, false, false, false
	}
	switch b.Kind() {
	case types.Bool, types.UntypedBool:
		return 0, false, false, true
	case types.Int8:
		return 8, true, false, true
	case types.Int16:
		return 16, true, false, true
	case types.Int32, types.UntypedRune:
		return 32, true, false, true
	case types.Int, types.Int64, types.UntypedInt:
		return 64, true, false, true
	case types.Uint8:
		return 8, false, false, true
	case types.Uint16:
		return 16, false, false, true
	case types.Uint32:
		return 32, false, false, true
	case types.Uint, types.Uint64, types.Uintptr:
		return 64, false, false, true
	case types.Float32:
		return 32, true, true, true
	case types.Float64, types.UntypedFloat:
		return 64, true, true, true
	}
	return 0, false, false, false
}

func isString(t types.Type) bool {
	b, ok := t.Underlying().(*types.Basic)
	return ok && b.Info()&types.IsString != 0
}

func isInterface(t types.Type) bool {
	_, ok := t.Underlying().(*types.Interface)
	return ok
}

func (in *Interp) zero(t types.Type) Value {
	switch u := t.Underlying().(type) {
	case *types.Basic:
		if u.Kind() == types.UnsafePointer {
			return Ptr{}
		}
		if u.Info()&types.IsString != 0 {
			return Str{}
		}
		if u.Kind() == types.UntypedNil {
			return Ptr{}
		}
		w, _, _, ok := scalarWidth(t)
		if !ok {
			unsupported("zero of %s", t)
		}
		if w == 0 {
			return in.tb.False
		}
		return in.tb.BV(w, 0)
	case *types.Pointer:
		return Ptr{}
	case *types.Struct:
		s := make(Struct, u.NumFields())
		for i := range s {
			s[i] = in.zero(u.Field(i).Type())
		}
		return s
	case *types.Array:
		a := make(Array, u.Len())
		for i := range a {
			a[i] = in.zero(u.Elem())
		}
		return a
	case *types.Slice:
		return Slice(nil)
	case *types.Map:
		return (*Map)(nil)
	case *types.Chan:
		return (*Chan)(nil)
	case *types.Signature:
		return (*Closure)(nil)
	case *types.Interface:
		return Iface{}
	case *types.Tuple:
		tu := make(Tuple, u.Len())
		for i := range tu {
			tu[i] = in.zero(u.At(i).Type())
		}
		return tu
	}
	unsupported("zero of %s", t)
	return nil
}

// copyVal makes a value-semantics copy of aggregates.
func copyVal(v Value) Value {
	switch v := v.(type) {
	case Struct:
		c := make(Struct, len(v))
		for i, x := range v {
			c[i] = copyVal(x)
		}
		return c
	case Array:
		c := make(Array, len(v))
		for i, x := range v {
			c[i] = copyVal(x)
		}
		return c
	}
	return v
}

// ---------- diagnostics ----------

func (in *Interp) show(v Value) string {
	switch v := v.(type) {
	case nil:
		return "<nil>"
	case *smt.Term:
		return v.String()
	case Str:
		if v.B == nil {
			return fmt.Sprintf("%q", v.S)
		}
		var sb strings.Builder
		sb.WriteString("str[")
		for i, b := range v.B {
			if i > 0 {
				sb.WriteByte(' ')
			}
			sb.WriteString(b.String())
		}
		sb.WriteString("]")
		return sb.String()
	case Ptr:
		if v.C == nil {
			return "nilptr"
		}
		return fmt.Sprintf("ptr(%p)", v.C)
	case Struct:
		var ss []string
		for _, x := range v {
			ss = append(ss, in.show(x))
		}
		return "{" + strings.Join(ss, ", ") + "}"
	case Array:
		return fmt.Sprintf("array(%d)", len(v))
	case Slice:
		if len(v) > 8 {
			return fmt.Sprintf("slice(len %d)", len(v))
		}
		var ss []string
		for _, x := range v {
			ss = append(ss, in.show(x))
		}
		return "[" + strings.Join(ss, ", ") + "]"
	case Iface:
		if v.T == nil {
			return "nil-iface"
		}
		return fmt.Sprintf("iface(%s, %s)", v.T, in.show(v.V))
	case *Closure:
		if v == nil {
			return "nil-func"
		}
		return "func " + v.Fn.String()
	case Tuple:
		var ss []string
		for _, x := range v {
			ss = append(ss, in.show(x))
		}
		return "(" + strings.Join(ss, ", ") + ")"
	}
	return fmt.Sprintf("%T", v)
}

// findMethod returns the exported method of T with the given name, or nil.
func (in *Interp) findMethod(T types.Type, name string) *ssa.Function {
	sel := in.prog.MethodSets.MethodSet(T).Lookup(nil, name)
	if sel == nil {
		return nil
	}
	return in.prog.MethodValue(sel)
}

// loadConstTable reads a table of constants at a symbolic index as a cascade over runs of equal
// values (ite(idx <= hi_1, v_1, ite(idx <= hi_2, v_2, ...))), which is far smaller than one ite per entry.
func (in *Interp) loadConstTable(p SymPtr) (Value, bool) {
	n := len(p.Elems)
	if n < 8 {
		return nil, false
	}
	vals := make([]*smt.Term, n)
	for k := range p.Elems {
		t, ok := (*in.subCell(&p.Elems[k], p.Path)).(*smt.Term)
		if !ok || !t.IsConst() {
			return nil, false
		}
		vals[k] = t
	}
	// runs, last run first
	res := vals[n-1]
	for k := n - 2; k >= 0; k-- {
		if vals[k] == vals[k+1] {
			continue
		}
		// entries <= k belong to earlier runs
		c := in.tb.Cmp(smt.OpUle, p.Idx, in.tb.BV(64, uint64(k)))
		res = in.tb.Ite(c, vals[k], res)
	}
	// res currently selects by the *last* index of each run scanning downward: rebuild properly
	// (the loop above nests so that the innermost test is the largest k; order the tests ascending)
	res = vals[n-1]
	type run struct {
		hi int
		v  *smt.Term
	}
	var runs []run
	for k := 0; k < n; k++ {
		if k == n-1 || vals[k] != vals[k+1] {
			runs = append(runs, run{k, vals[k]})
		}
	}
	res = runs[len(runs)-1].v
	for i := len(runs) - 2; i >= 0; i-- {
		c := in.tb.Cmp(smt.OpUle, p.Idx, in.tb.BV(64, uint64(runs[i].hi)))
		res = in.tb.Ite(c, runs[i].v, res)
	}
	return res, true
}

// indexSub: first index of b in a, or -1 (as BV64).
func (in *Interp) indexSub(a, b []*smt.Term) *smt.Term {
	res := in.tb.BV(64, ^uint64(0))
	for i := len(a) - len(b); i >= 0; i-- {
		eq := in.tb.True
		for j := range b {
			eq = in.tb.And(eq, in.tb.Eq(a[i+j], b[j]))
		}
		res = in.tb.Ite(eq, in.tb.BV(64, uint64(i)), res)
	}
	return res
}
