package interp

import (
	"fmt"
	"sort"
	"strings"
	"sync"
	"time"

	"golang.org/x/tools/go/ssa"

	"symgo/smt"
)

// ---------- decisions ----------

func (in *Interp) addPC(t *smt.Term) {
	p := in.p
	if t.IsTrue() {
		return
	}
	p.pc = append(p.pc, t)
	if p.model != nil {
		if smt.HasUF(t, map[int]bool{}) || smt.Eval(t, p.model, map[int]uint64{}) != 1 {
			p.model = nil
		}
	}
}

func (in *Interp) flushPC() {
	p := in.p
	if !p.reset {
		in.sol.Reset()
		p.reset = true
	}
	for ; p.pcSent < len(p.pc); p.pcSent++ {
		in.sol.Assert(p.pc[p.pcSent])
	}
}

func (in *Interp) nondetVars() []*smt.Term {
	p := in.p
	vars := make([]*smt.Term, 0, len(p.nondets))
	for _, n := range p.nondets {
		vars = append(vars, in.tb.Var(n.Name, n.W))
	}
	return vars
}

// feasible asks whether pc ∧ c is satisfiable.
func (in *Interp) feasible(c *smt.Term) smt.Result {
	p := in.p
	if c.IsTrue() {
		return smt.Sat
	}
	if c.IsFalse() {
		return smt.Unsat
	}
	if p.model != nil && !smt.HasUF(c, map[int]bool{}) && smt.Eval(c, p.model, map[int]uint64{}) == 1 {
		in.sink.count("model_shortcuts", 1)
		return smt.Sat
	}
	in.flushPC()
	r, m := in.sol.Check(c, in.nondetVars())
	if r == smt.Sat {
		if m == nil {
			m = map[string]uint64{}
		}
		// the model satisfies pc ∧ c; it stays valid as long as added constraints evaluate to true
		ok := true
		for _, t := range p.pc {
			if smt.HasUF(t, map[int]bool{}) {
				ok = false
				break
			}
		}
		if ok {
			p.model = m
		} else {
			p.model = nil
		}
		p.lastModel = m
	}
	if r == smt.Unknown {
		p.unknowns++
		in.sink.count("unknown_queries", 1)
	}
	return r
}

// uniqueValue returns the constant a term is forced to by the path condition, if there is exactly
// one (two solver queries: a model, then "can it differ"). No decision is recorded.
func (in *Interp) uniqueValue(t *smt.Term) (*smt.Term, bool) {
	if t.IsConst() {
		return t, true
	}
	p := in.p
	if p == nil || in.initing > 0 || t.W == 0 {
		return nil, false
	}
	var m map[string]uint64
	if p.model != nil {
		m = p.model
	} else {
		in.flushPC()
		r, mm := in.sol.Check(in.tb.Bool(true), in.nondetVars())
		if r != smt.Sat {
			return nil, false
		}
		if mm == nil {
			mm = map[string]uint64{}
		}
		m = mm
	}
	if smt.HasUF(t, map[int]bool{}) {
		return nil, false
	}
	v := in.tb.BV(t.W, smt.Eval(t, m, map[int]uint64{}))
	if in.feasible(in.tb.Not(in.tb.Eq(t, v))) == smt.Unsat {
		return v, true
	}
	return nil, false
}

// choose makes an n-way decision among mutually exclusive, exhaustive conditions.
func (in *Interp) choose(conds []*smt.Term) int {
	p := in.p
	if p == nil || in.initing > 0 {
		for i, c := range conds {
			if c.IsTrue() {
				return i
			}
		}
		unsupported("symbolic decision outside a path")
	}
	// constant shortcut
	nonFalse := -1
	cnt := 0
	for i, c := range conds {
		if c.IsTrue() {
			return i
		}
		if !c.IsFalse() {
			nonFalse = i
			cnt++
		}
	}
	if cnt == 0 {
		in.endPath("infeasible", "no alternative")
	}
	if cnt == 1 && len(conds) > 1 {
		// the others are syntactically false, so this one holds under an exhaustive split
		in.addPC(conds[nonFalse])
		return nonFalse
	}
	if p.pos < len(p.prefix) {
		d := p.prefix[p.pos]
		p.pos++
		p.decisions = append(p.decisions, d)
		in.addPC(conds[d])
		return d
	}
	if len(p.decisions) >= in.cfg.MaxDecisions {
		in.endPath("unwind", fmt.Sprintf("decision bound %d exceeded", in.cfg.MaxDecisions))
	}
	var feas []int
	for i, c := range conds {
		if c.IsFalse() {
			continue
		}
		// if all others were infeasible and pc is satisfiable, the last needs no query
		r := in.feasible(c)
		if r != smt.Unsat {
			feas = append(feas, i)
		}
	}
	if len(feas) == 0 {
		in.endPath("infeasible", "no feasible alternative")
	}
	base := append([]int{}, p.decisions...)
	for _, alt := range feas[1:] {
		w := append(append([]int{}, base...), alt)
		p.newWork = append(p.newWork, w)
	}
	d := feas[0]
	p.decisions = append(p.decisions, d)
	p.pos = len(p.decisions)
	p.prefix = nil
	in.addPC(conds[d])
	in.sink.count("decisions", 1)
	return d
}

// branch decides a boolean condition; decision 1 = true, 0 = false.
func (in *Interp) branch(c *smt.Term) bool {
	if c.IsConst() {
		return c.C == 1
	}
	p := in.p
	if p == nil || in.initing > 0 {
		unsupported("symbolic branch outside a path: %s", c)
	}
	if p.pos < len(p.prefix) {
		d := p.prefix[p.pos]
		p.pos++
		p.decisions = append(p.decisions, d)
		if d == 1 {
			in.addPC(c)
		} else {
			in.addPC(in.tb.Not(c))
		}
		return d == 1
	}
	if len(p.decisions) >= in.cfg.MaxDecisions {
		in.endPath("unwind", fmt.Sprintf("decision bound %d exceeded", in.cfg.MaxDecisions))
	}
	nc := in.tb.Not(c)
	rt := in.feasible(c)
	mT := p.model
	var rf smt.Result
	if rt == smt.Unsat {
		rf = smt.Sat // pc is satisfiable by construction
	} else {
		rf = in.feasible(nc)
		if mT != nil {
			p.model = mT // we continue on the true side, for which mT is a model
		}
	}
	tOK, fOK := rt != smt.Unsat, rf != smt.Unsat
	if !tOK && !fOK {
		in.endPath("infeasible", "neither branch feasible")
	}
	if tOK && fOK {
		w := append(append([]int{}, p.decisions...), 0)
		p.newWork = append(p.newWork, w)
		in.sink.count("decisions", 1)
	}
	d := 0
	if tOK {
		d = 1
	}
	// a decision is recorded even when only one side is feasible so that prefixes replay identically
	p.decisions = append(p.decisions, d)
	p.pos = len(p.decisions)
	p.prefix = nil
	if d == 1 {
		in.addPC(c)
	} else {
		in.addPC(nc)
	}
	return d == 1
}

// ---------- nondeterministic inputs ----------

func (in *Interp) nondet(label, kind string, w int) *smt.Term {
	p := in.p
	if p == nil {
		unsupported("nondet outside a path")
	}
	seq := p.seqs[label]
	p.seqs[label] = seq + 1
	name := fmt.Sprintf("%s#%d", label, seq)
	p.nondets = append(p.nondets, NondetRec{Label: label, Seq: seq, Kind: kind, W: w, Name: name})
	return in.tb.Var(name, w)
}

// ---------- results ----------

type Witness struct {
	Harness   string      `json:"harness"`
	Kind      string      `json:"kind"` // "assert", "panic", "cover", "unwind", "deadlock"
	Label     string      `json:"label"`
	Msg       string      `json:"msg,omitempty"`
	Nondet    []NondetRec `json:"nondet"`
	Decisions []int       `json:"decisions"`
	Params    map[string]int `json:"params,omitempty"`
}

// Sink aggregates the results of one harness exploration across workers.
type Sink struct {
	mu         sync.Mutex
	Harness    string
	Paths      int
	PathKinds  map[string]int
	Asserts    int // assertion queries discharged (unsat) or trivially true
	AssertsTrivial int
	Violations []*Witness
	violSeen   map[string]int
	Covers     map[string]*Witness
	CoverSeen  map[string]int
	Unsupported map[string]int
	Unwinds    []*Witness
	Bugs       []string
	Counters   map[string]int
	FnCount    map[string]int
	Samples    []string
	Inconclusive []string
	MaxViolPerLabel int
}

func NewSink(h string) *Sink {
	return &Sink{Harness: h, PathKinds: map[string]int{}, violSeen: map[string]int{}, Covers: map[string]*Witness{},
		CoverSeen: map[string]int{}, Unsupported: map[string]int{}, Counters: map[string]int{}, FnCount: map[string]int{}, MaxViolPerLabel: 2}
}

func (s *Sink) count(k string, n int) {
	s.mu.Lock()
	s.Counters[k] += n
	s.mu.Unlock()
}

func (in *Interp) witness(kind, label, msg string, model map[string]uint64) *Witness {
	p := in.p
	w := &Witness{Harness: in.sink.Harness, Kind: kind, Label: label, Msg: msg, Decisions: append([]int{}, p.decisions...), Params: in.cfg.Params}
	for _, n := range p.nondets {
		n.Value = model[n.Name]
		w.Nondet = append(w.Nondet, n)
	}
	return w
}

// currentModel returns a model of the path condition (querying if needed); ok=false if unavailable.
func (in *Interp) currentModel(extra *smt.Term) (map[string]uint64, smt.Result) {
	p := in.p
	if p.model != nil && !smt.HasUF(extra, map[int]bool{}) && smt.Eval(extra, p.model, map[int]uint64{}) == 1 {
		return p.model, smt.Sat
	}
	in.flushPC()
	r, m := in.sol.Check(extra, in.nondetVars())
	if r == smt.Unknown {
		p.unknowns++
	}
	if m == nil {
		m = map[string]uint64{}
	}
	return m, r
}

func (in *Interp) doAssert(c *smt.Term, label string) {
	s := in.sink
	if c.IsTrue() {
		s.mu.Lock()
		s.Asserts++
		s.AssertsTrivial++
		s.mu.Unlock()
		return
	}
	m, r := in.currentModel(in.tb.Not(c))
	if r == smt.Unknown {
		// second opinion from the other back ends on the complete query (only unsat is accepted:
		// a sat answer would need a model in this session to be replayable)
		asserts := append(append([]*smt.Term{}, in.p.pc...), in.tb.Not(c))
		for _, be := range []string{"z3-new", "cvc5"} {
			r2, _ := smt.OneShot(be, in.cfg.TimeoutMS*3, asserts)
			s.count("fallback_queries:"+be, 1)
			if r2 == smt.Unsat {
				r = smt.Unsat
				s.count("discharged_by:"+be, 1)
				break
			}
		}
	}
	// cross-check a sample of the discharged obligations with the two other back ends: the complete
	// query (path condition and negated assertion) is handed to z3 5.x and cvc5 one-shot; an answer
	// other than unsat from either makes the harness inconclusive (a disagreement between solvers or
	// a construct one of them does not accept must not pass silently)
	if r == smt.Unsat {
		limit := 3
		if in.cfg.Tier == "thorough" {
			limit = 25
		}
		s.mu.Lock()
		do := s.Counters["crosscheck_sampled"] < limit
		if do {
			s.Counters["crosscheck_sampled"]++
		}
		s.mu.Unlock()
		if do {
			asserts := append(append([]*smt.Term{}, in.p.pc...), in.tb.Not(c))
			for _, be := range []string{"z3-new", "cvc5"} {
				r2, msg := smt.OneShot(be, in.cfg.TimeoutMS*3, asserts)
				switch r2 {
				case smt.Unsat:
					s.count("crosscheck_agree:"+be, 1)
				case smt.Unknown:
					s.count("crosscheck_unknown:"+be, 1)
				default:
					s.mu.Lock()
					s.Inconclusive = append(s.Inconclusive, fmt.Sprintf("assert %q: %s answers %v where z3 4.8 answers unsat (%s)", label, be, r2, msg))
					s.mu.Unlock()
				}
			}
		}
	}
	switch r {
	case smt.Unsat:
		s.mu.Lock()
		s.Asserts++
		s.mu.Unlock()
	case smt.Sat:
		s.mu.Lock()
		s.violSeen[label]++
		if s.violSeen[label] <= s.MaxViolPerLabel {
			s.Violations = append(s.Violations, in.witness("assert", label, "", m))
		}
		s.mu.Unlock()
	default:
		s.mu.Lock()
		s.Inconclusive = append(s.Inconclusive, fmt.Sprintf("assert %q: solver unknown (%s)", label, in.sol.LastError))
		s.mu.Unlock()
	}
	// continue under the assumption that the assertion holds
	if c.IsFalse() {
		in.endPath("infeasible", "assertion false on every input of this path")
	}
	in.addPC(c)
}

func (in *Interp) doAssume(c *smt.Term) {
	if c.IsTrue() {
		return
	}
	if c.IsFalse() {
		in.endPath("infeasible", "assume false")
	}
	if in.feasible(c) == smt.Unsat {
		in.endPath("infeasible", "assumption unsatisfiable")
	}
	in.addPC(c)
}

func (in *Interp) doCover(c *smt.Term, label string) {
	s := in.sink
	s.mu.Lock()
	_, have := s.Covers[label]
	s.CoverSeen[label]++
	s.mu.Unlock()
	if have || c.IsFalse() {
		return
	}
	m, r := in.currentModel(c)
	if r == smt.Sat {
		s.mu.Lock()
		if _, have := s.Covers[label]; !have {
			s.Covers[label] = in.witness("cover", label, "", m)
		}
		s.mu.Unlock()
	}
}

// recordEnd files the outcome of a finished path.
func (in *Interp) recordEnd(p *pathState, panicIsViolation bool, unwindIsViolation bool) {
	s := in.sink
	s.mu.Lock()
	defer s.mu.Unlock()
	s.Paths++
	s.PathKinds[p.end.kind]++
	switch p.end.kind {
	case "unsupported":
		s.Unsupported[p.end.msg]++
	case "bug":
		s.Bugs = append(s.Bugs, p.end.msg)
	case "panic", "deadlock":
		label := p.end.kind + ":" + p.end.msg
		s.violSeen[label]++
		// hangs depend on the schedule: keep more witnesses, any one that reproduces natively counts
		max := s.MaxViolPerLabel
		if p.end.kind == "deadlock" {
			max = 8
		}
		if s.violSeen[label] <= max {
			w := &Witness{Harness: s.Harness, Kind: p.end.kind, Label: label, Msg: p.end.msg, Decisions: append([]int{}, p.decisions...), Params: in.cfg.Params}
			w.Nondet = p.endNondet
			s.Violations = append(s.Violations, w)
		}
	case "unwind":
		w := &Witness{Harness: s.Harness, Kind: "unwind", Label: "unwind", Msg: p.end.msg, Decisions: append([]int{}, p.decisions...), Params: in.cfg.Params}
		w.Nondet = p.endNondet
		if len(s.Unwinds) < 8 {
			s.Unwinds = append(s.Unwinds, w)
		} else {
			s.Unwinds[0].Msg = s.Unwinds[0].Msg // keep first few only
		}
		s.Counters["unwinds"]++
	}
	if len(s.Samples) < 4 && p.end.kind == "done" && len(p.notes) > 0 {
		s.Samples = append(s.Samples, strings.Join(p.notes, "; "))
	}
}

// ---------- exploration driver ----------

type Explorer struct {
	Prog    *ssa.Program
	Cfg     *Config
	Workers int
	Budget  time.Duration
}

type ExploreResult struct {
	Sink     *Sink
	Solver   smt.Stats
	Wall     float64
	TimedOut bool
	Terms    int
	Pending  int
}

func (ex *Explorer) Run(entry *ssa.Function, name string) (*ExploreResult, error) {
	sink := NewSink(name)
	t0 := time.Now()
	var mu sync.Mutex
	cond := sync.NewCond(&mu)
	work := [][]int{{}}
	active := 0
	timedOut := false
	var firstErr error
	res := &ExploreResult{Sink: sink}
	var wg sync.WaitGroup
	for w := 0; w < ex.Workers; w++ {
		wg.Add(1)
		go func(wid int) {
			defer wg.Done()
			in, err := NewInterp(ex.Prog, ex.Cfg)
			if err != nil {
				mu.Lock()
				firstErr = err
				mu.Unlock()
				return
			}
			defer func() {
				mu.Lock()
				res.Solver.Add(in.sol.Stats)
				res.Terms += in.tb.NumTerms()
				for f, n := range in.fnCount {
					sink.FnCount[f.String()] += n
				}
				mu.Unlock()
				in.Close()
			}()
			for {
				mu.Lock()
				for len(work) == 0 && active > 0 && !timedOut {
					cond.Wait()
				}
				if (len(work) == 0 && active == 0) || timedOut {
					mu.Unlock()
					cond.Broadcast()
					return
				}
				if ex.Budget > 0 && time.Since(t0) > ex.Budget {
					timedOut = true
					mu.Unlock()
					cond.Broadcast()
					return
				}
				prefix := work[len(work)-1]
				work = work[:len(work)-1]
				active++
				mu.Unlock()

				p := in.RunPath(entry, prefix, sink)
				in.sink = sink
				in.recordEnd(p, true, false)

				mu.Lock()
				active--
				work = append(work, p.newWork...)
				mu.Unlock()
				cond.Broadcast()
			}
		}(w)
	}
	wg.Wait()
	res.Wall = time.Since(t0).Seconds()
	res.TimedOut = timedOut
	res.Pending = len(work)
	if firstErr != nil {
		return nil, firstErr
	}
	return res, nil
}

// SortedKeys is a small helper for deterministic reports.
func SortedKeys(m map[string]int) []string {
	ks := make([]string, 0, len(m))
	for k := range m {
		ks = append(ks, k)
	}
	sort.Strings(ks)
	return ks
}
