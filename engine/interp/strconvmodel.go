package interp

import (
	"go/token"
	"math"
	"strconv"

	"golang.org/x/tools/go/ssa"

	"symgo/smt"
)

// Contract model of the strconv float pair, used only when the float (or the text) is symbolic:
// FormatFloat(f, 'f'|'g'|'e', -1, bitSize) is documented to produce the shortest text that
// ParseFloat(text, bitSize) reads back as exactly the same value *at that bit size*. The text is
// represented by a 10-byte token (marker 0x01 'F' + the bits of f rounded to bitSize); ParseFloat
// of such a token returns the carried value. Inspecting the token's bytes in any other way gives
// meaningless results, which is why the pair is listed as an assumption of every harness using it;
// natively (replays) the real strconv runs.
func init() {
	reg("strconv.FormatFloat", func(in *Interp, caller *frame, pos token.Pos, fn *ssa.Function, args []Value) Value {
		f := term(args[0])
		fm := term(args[1])
		prec := in.concreteInt(args[2], "FormatFloat precision")
		bits := in.concreteInt(args[3], "FormatFloat bitSize")
		if f.IsConst() && fm.IsConst() {
			return Str{S: strconv.FormatFloat(math.Float64frombits(f.C), byte(fm.C), prec, bits)}
		}
		if prec != -1 || (bits != 64 && bits != 32) {
			unsupported("strconv.FormatFloat of a symbolic value with precision %d / bitSize %d", prec, bits)
		}
		in.noteUsed("strconv.FormatFloat/ParseFloat contract model (shortest text that parses back to the same value at the given bit size)")
		v := f
		if bits == 32 {
			v = in.tb.FToF(in.tb.FToF(f, 32), 64)
		}
		bs := []*smt.Term{in.tb.BV(8, 1), in.tb.BV(8, 'F')}
		for i := 7; i >= 0; i-- {
			bs = append(bs, in.tb.Extract(v, i*8+7, i*8))
		}
		return Str{B: bs}
	})
	reg("strconv.ParseFloat", func(in *Interp, caller *frame, pos token.Pos, fn *ssa.Function, args []Value) Value {
		s := args[0].(Str)
		bits := in.concreteInt(args[1], "ParseFloat bitSize")
		if s.IsConcrete() && !s.Opaque {
			if c := s.Concrete(); !(len(c) == 10 && c[0] == 1 && c[1] == 'F') {
				return in.callSSA(caller, fn, args, nil)
			}
		}
		if s.B != nil && len(s.B) == 10 && s.B[0].IsConst() && s.B[0].C == 1 && s.B[1].IsConst() && s.B[1].C == 'F' {
			v := s.B[2]
			for i := 3; i < 10; i++ {
				v = in.tb.Concat(v, s.B[i])
			}
			if bits == 32 {
				v = in.tb.FToF(in.tb.FToF(v, 32), 64)
			}
			return Tuple{v, Iface{}}
		}
		// any other text: the real strconv code, executed symbolically
		return in.callSSA(caller, fn, args, nil)
	})
}
