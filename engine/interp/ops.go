package interp

import (
	"fmt"
	"go/token"
	"go/types"
	"os"
	"strings"
	"unicode/utf8"

	"golang.org/x/tools/go/ssa"

	"symgo/smt"
)

func (in *Interp) unop(fr *frame, instr *ssa.UnOp, x Value) Value {
	if p, isP := x.(Poison); isP {
		unsupported("operation on poisoned value: %s", p.Why)
	}
	switch instr.Op {
	case token.MUL: // load
		return in.load(instr.Pos(), x)
	case token.ARROW:
		v, ok := in.chanRecv(instr.Pos(), x, instr.X.Type().Underlying().(*types.Chan).Elem())
		if instr.CommaOk {
			return Tuple{v, in.tb.Bool(ok)}
		}
		return v
	case token.NOT:
		return in.tb.Not(x.(*smt.Term))
	case token.SUB:
		t := x.(*smt.Term)
		_, _, isF, _ := scalarWidth(instr.X.Type())
		if isF {
			// flip the sign bit
			return in.tb.Bin(smt.OpBXor, t, in.tb.BV(t.W, uint64(1)<<uint(t.W-1)))
		}
		return in.tb.Neg(t)
	case token.XOR:
		return in.tb.BNot(x.(*smt.Term))
	}
	unsupported("unop %s", instr.Op)
	return nil
}

// shiftCount adapts a shift count to the width of the shifted operand.
func (in *Interp) shiftCount(y *smt.Term, w int) *smt.Term {
	if y.W == w {
		return y
	}
	if y.W < w {
		return in.tb.ZExt(y, w)
	}
	// y wider than w: saturate at w
	if y.IsConst() {
		if y.C >= uint64(w) {
			return in.tb.BV(w, uint64(w))
		}
		return in.tb.BV(w, y.C)
	}
	big := in.tb.Cmp(smt.OpUle, in.tb.BV(y.W, uint64(w)), y)
	return in.tb.Ite(big, in.tb.BV(w, uint64(w)), in.tb.Extract(y, w-1, 0))
}

func (in *Interp) binop(pos token.Pos, op token.Token, xt, yt types.Type, x, y Value) Value {
	if p, isP := x.(Poison); isP {
		unsupported("operation on poisoned value: %s", p.Why)
	}
	if p, isP := y.(Poison); isP {
		unsupported("operation on poisoned value: %s", p.Why)
	}
	tb := in.tb
	// code that peeks at the first byte of raw JSON text (json.RawMessage): the abstract text answers
	// with the first byte its kind implies
	if t, ok := x.(JSONTok); ok {
		x = in.jsonFirstByte(t.V)
	}
	if t, ok := y.(JSONTok); ok {
		y = in.jsonFirstByte(t.V)
	}
	switch op {
	case token.EQL:
		return in.equal(xt, x, y)
	case token.NEQ:
		return tb.Not(in.equal(xt, x, y))
	}
	if xs, ok := x.(Str); ok {
		ys := y.(Str)
		switch op {
		case token.ADD:
			return in.strConcat(xs, ys)
		case token.LSS:
			return in.strLess(xs, ys, false)
		case token.LEQ:
			return in.strLess(xs, ys, true)
		case token.GTR:
			return in.strLess(ys, xs, false)
		case token.GEQ:
			return in.strLess(ys, xs, true)
		}
		unsupported("string binop %s", op)
	}
	a, ok1 := x.(*smt.Term)
	b, ok2 := y.(*smt.Term)
	if !ok1 || !ok2 {
		unsupported("binop %s on %T, %T", op, x, y)
	}
	w, signed, isF, ok := scalarWidth(xt)
	if !ok {
		unsupported("binop on type %s", xt)
	}
	if w == 0 {
		switch op {
		case token.LAND, token.AND:
			return tb.And(a, b)
		case token.LOR, token.OR:
			return tb.Or(a, b)
		}
		unsupported("bool binop %s", op)
	}
	if isF {
		switch op {
		case token.ADD:
			return tb.FBin(smt.OpFAdd, a, b)
		case token.SUB:
			return tb.FBin(smt.OpFSub, a, b)
		case token.MUL:
			return tb.FBin(smt.OpFMul, a, b)
		case token.QUO:
			return tb.FBin(smt.OpFDiv, a, b)
		case token.LSS:
			return tb.FCmp(smt.OpFLt, a, b)
		case token.LEQ:
			return tb.FCmp(smt.OpFLe, a, b)
		case token.GTR:
			return tb.FCmp(smt.OpFLt, b, a)
		case token.GEQ:
			return tb.FCmp(smt.OpFLe, b, a)
		}
		unsupported("float binop %s", op)
	}
	switch op {
	case token.ADD:
		return tb.Bin(smt.OpAdd, a, b)
	case token.SUB:
		return tb.Bin(smt.OpSub, a, b)
	case token.MUL:
		return tb.Bin(smt.OpMul, a, b)
	case token.QUO, token.REM:
		if in.branch(tb.Eq(b, tb.BV(w, 0))) {
			in.rtPanic(pos, "integer divide by zero")
		}
		var o smt.Op
		switch {
		case op == token.QUO && signed:
			o = smt.OpSDiv
		case op == token.QUO:
			o = smt.OpUDiv
		case signed:
			o = smt.OpSRem
		default:
			o = smt.OpURem
		}
		return tb.Bin(o, a, b)
	case token.AND:
		return tb.Bin(smt.OpBAnd, a, b)
	case token.OR:
		return tb.Bin(smt.OpBOr, a, b)
	case token.XOR:
		return tb.Bin(smt.OpBXor, a, b)
	case token.AND_NOT:
		return tb.Bin(smt.OpBAnd, a, tb.BNot(b))
	case token.SHL, token.SHR:
		_, ysigned, _, _ := scalarWidth(yt)
		if ysigned && !b.IsConst() {
			if in.branch(tb.Cmp(smt.OpSlt, b, tb.BV(b.W, 0))) {
				in.rtPanic(pos, "negative shift amount")
			}
		} else if ysigned && b.SignedVal() < 0 {
			in.rtPanic(pos, "negative shift amount")
		}
		c := in.shiftCount(b, w)
		if op == token.SHL {
			return tb.Bin(smt.OpShl, a, c)
		}
		if signed {
			return tb.Bin(smt.OpAShr, a, c)
		}
		return tb.Bin(smt.OpLShr, a, c)
	case token.LSS, token.LEQ, token.GTR, token.GEQ:
		var o smt.Op
		swap := op == token.GTR || op == token.GEQ
		strict := op == token.LSS || op == token.GTR
		switch {
		case signed && strict:
			o = smt.OpSlt
		case signed:
			o = smt.OpSle
		case strict:
			o = smt.OpUlt
		default:
			o = smt.OpUle
		}
		if swap {
			a, b = b, a
		}
		return tb.Cmp(o, a, b)
	}
	unsupported("int binop %s", op)
	return nil
}

// equal builds the Go == relation.
func (in *Interp) equal(t types.Type, x, y Value) *smt.Term {
	tb := in.tb
	switch a := x.(type) {
	case *smt.Term:
		b, ok := y.(*smt.Term)
		if !ok {
			unsupported("equal %T %T", x, y)
		}
		if t != nil {
			if _, _, isF, ok := scalarWidth(t); ok && isF {
				return tb.FCmp(smt.OpFEq, a, b)
			}
		}
		return tb.Eq(a, b)
	case Str:
		return in.strEq(a, y.(Str))
	case Ptr:
		switch b := y.(type) {
		case Ptr:
			return tb.Bool(a.C == b.C)
		case SymPtr:
			if a.C == nil {
				return tb.False
			}
		case SliceDataPtr:
			return tb.Bool(false)
		}
		unsupported("pointer comparison %T %T", x, y)
	case SymPtr:
		if b, ok := y.(Ptr); ok && b.C == nil {
			return tb.False
		}
		unsupported("comparison of symbolic-index pointers")
	case Iface:
		b, ok := y.(Iface)
		if !ok {
			unsupported("equal iface with %T", y)
		}
		if a.T == nil || b.T == nil {
			return tb.Bool(a.T == nil && b.T == nil)
		}
		if !types.Identical(a.T, b.T) {
			return tb.False
		}
		return in.equal(a.T, a.V, b.V)
	case Struct:
		b := y.(Struct)
		r := tb.True
		var st *types.Struct
		if t != nil {
			st, _ = t.Underlying().(*types.Struct)
		}
		for i := range a {
			var ft types.Type
			if st != nil {
				ft = st.Field(i).Type()
			}
			r = tb.And(r, in.equal(ft, a[i], b[i]))
		}
		return r
	case Array:
		b := y.(Array)
		r := tb.True
		var et types.Type
		if t != nil {
			if at, ok := t.Underlying().(*types.Array); ok {
				et = at.Elem()
			}
		}
		for i := range a {
			r = tb.And(r, in.equal(et, a[i], b[i]))
		}
		return r
	case *Map:
		b, ok := y.(*Map)
		if ok {
			return tb.Bool(a == b)
		}
	case *Chan:
		b, ok := y.(*Chan)
		if ok {
			return tb.Bool(a == b)
		}
	case *Closure:
		b, ok := y.(*Closure)
		if ok && (a == nil || b == nil) {
			return tb.Bool(a == nil && b == nil)
		}
	case Slice:
		b, ok := y.(Slice)
		if ok && (a == nil || b == nil) {
			return tb.Bool(a == nil && b == nil)
		}
	case *Bitmap:
		if b, ok := y.(*Bitmap); ok {
			return tb.Bool(a == b)
		}
	case nil:
		return tb.Bool(y == nil)
	}
	unsupported("equal on %T and %T", x, y)
	return nil
}

func (in *Interp) strEq(a, b Str) *smt.Term {
	if a.Opaque || b.Opaque {
		unsupported("comparison of an opaque formatted string")
	}
	if a.Len() != b.Len() {
		return in.tb.False
	}
	if a.B == nil && b.B == nil {
		return in.tb.Bool(a.S == b.S)
	}
	ab, bb := in.strBytes(a), in.strBytes(b)
	r := in.tb.True
	for i := range ab {
		r = in.tb.And(r, in.tb.Eq(ab[i], bb[i]))
	}
	return r
}

// bytesCompare returns a BV64 term in {-1,0,1} (as int) for lexicographic comparison.
func (in *Interp) bytesCompare(a, b []*smt.Term) *smt.Term {
	tb := in.tb
	one, zero, minus := tb.BV(64, 1), tb.BV(64, 0), tb.BV(64, ^uint64(0))
	var res *smt.Term
	switch {
	case len(a) < len(b):
		res = minus
	case len(a) > len(b):
		res = one
	default:
		res = zero
	}
	n := len(a)
	if len(b) < n {
		n = len(b)
	}
	for i := n - 1; i >= 0; i-- {
		lt := tb.Cmp(smt.OpUlt, a[i], b[i])
		gt := tb.Cmp(smt.OpUlt, b[i], a[i])
		res = tb.Ite(lt, minus, tb.Ite(gt, one, res))
	}
	return res
}

func (in *Interp) strLess(a, b Str, orEq bool) *smt.Term {
	if a.Opaque || b.Opaque {
		unsupported("comparison of an opaque formatted string")
	}
	if a.B == nil && b.B == nil {
		if orEq {
			return in.tb.Bool(a.S <= b.S)
		}
		return in.tb.Bool(a.S < b.S)
	}
	c := in.bytesCompare(in.strBytes(a), in.strBytes(b))
	if orEq {
		return in.tb.Cmp(smt.OpSle, c, in.tb.BV(64, 0))
	}
	return in.tb.Cmp(smt.OpSlt, c, in.tb.BV(64, 0))
}

func (in *Interp) strConcat(a, b Str) Str {
	if a.Opaque || b.Opaque {
		return Str{S: a.Concrete() + b.Concrete(), Opaque: true}
	}
	if a.B == nil && b.B == nil {
		return Str{S: a.S + b.S}
	}
	if a.Len() == 0 {
		return b
	}
	if b.Len() == 0 {
		return a
	}
	r := append(append([]*smt.Term{}, in.strBytes(a)...), in.strBytes(b)...)
	return Str{B: r}
}

func (in *Interp) mkStr(bs []*smt.Term) Str {
	if len(bs) == 0 {
		return Str{}
	}
	all := true
	for _, b := range bs {
		if !b.IsConst() {
			all = false
			break
		}
	}
	if all {
		raw := make([]byte, len(bs))
		for i, b := range bs {
			raw[i] = byte(b.C)
		}
		return Str{S: string(raw)}
	}
	return Str{B: append([]*smt.Term{}, bs...)}
}

// ---------- conversions ----------

func (in *Interp) conv(fr *frame, pos token.Pos, dst, src types.Type, x Value) Value {
	if p, isP := x.(Poison); isP {
		unsupported("conversion of poisoned value: %s", p.Why)
	}
	tb := in.tb
	ud, us := dst.Underlying(), src.Underlying()
	// pointers and unsafe.Pointer
	if _, ok := ud.(*types.Pointer); ok {
		return x
	}
	if b, ok := ud.(*types.Basic); ok && b.Kind() == types.UnsafePointer {
		if _, isT := x.(*smt.Term); isT {
			unsupported("uintptr to unsafe.Pointer")
		}
		return x
	}
	if b, ok := us.(*types.Basic); ok && b.Kind() == types.UnsafePointer {
		if bd, ok := ud.(*types.Basic); ok && bd.Kind() == types.Uintptr {
			unsupported("unsafe.Pointer to uintptr")
		}
		return x
	}
	// string conversions
	if isString(dst) {
		switch v := x.(type) {
		case Str:
			return v
		case Slice:
			et := us.(*types.Slice).Elem().Underlying().(*types.Basic)
			if et.Kind() == types.Uint8 {
				bs := make([]*smt.Term, len(v))
				for i, e := range v {
					bs[i] = e.(*smt.Term)
				}
				return in.mkStr(bs)
			}
			// []rune
			allc := true
			for _, e := range v {
				if !e.(*smt.Term).IsConst() {
					allc = false
				}
			}
			if allc {
				rs := make([]rune, len(v))
				for i, e := range v {
					rs[i] = rune(e.(*smt.Term).SignedVal())
				}
				return Str{S: string(rs)}
			}
			var acc Value = Slice(nil)
			for _, e := range v {
				acc = in.callPkgFunc(fr, "unicode/utf8", "AppendRune", acc, e)
			}
			return in.conv(fr, pos, dst, types.NewSlice(types.Typ[types.Byte]), acc)
		case *smt.Term: // integer -> string
			if v.IsConst() {
				return Str{S: string(rune(v.SignedVal()))}
			}
			r := tb.Resize(v, 32, true)
			bs := in.callPkgFunc(fr, "unicode/utf8", "AppendRune", Slice(nil), r)
			return in.conv(fr, pos, dst, types.NewSlice(types.Typ[types.Byte]), bs)
		}
		unsupported("conversion %T to string", x)
	}
	if sl, ok := ud.(*types.Slice); ok {
		if s, isS := x.(Str); isS {
			if s.Opaque {
				unsupported("conversion of an opaque formatted string to a slice")
			}
			et := sl.Elem().Underlying().(*types.Basic)
			if et.Kind() == types.Uint8 {
				bs := in.strBytes(s)
				r := make(Slice, len(bs))
				for i, b := range bs {
					r[i] = b
				}
				return r
			}
			// []rune(string)
			if s.B == nil {
				rs := []rune(s.S)
				r := make(Slice, len(rs))
				for i, c := range rs {
					r[i] = tb.BV(32, uint64(uint32(c)))
				}
				return r
			}
			r := Slice{}
			for i := 0; i < s.Len(); {
				res := in.callPkgFunc(fr, "unicode/utf8", "DecodeRuneInString", Str{B: s.B[i:]}).(Tuple)
				r = append(r, res[0])
				i += in.concreteInt(res[1], "rune size")
			}
			return r
		}
		return x
	}
	dw, dsigned, dF, dok := scalarWidth(dst)
	sw, ssigned, sF, sok := scalarWidth(src)
	if dok && sok {
		t, ok := x.(*smt.Term)
		if !ok {
			unsupported("numeric conversion of %T", x)
		}
		_ = dsigned
		switch {
		case dw == 0 && sw == 0:
			return t
		case !dF && !sF:
			return tb.Resize(t, dw, ssigned)
		case dF && !sF:
			return tb.IntToF(t, dw, ssigned)
		case !dF && sF:
			return tb.FToInt(t, dw, dsigned)
		default:
			_ = sw
			return tb.FToF(t, dw)
		}
	}
	// identical underlying representation (named struct types, func types, etc)
	return x
}

// ---------- range / next ----------

func (in *Interp) rangeIter(x Value) Value {
	switch x := x.(type) {
	case *Map:
		it := &MapIter{M: x}
		if x != nil {
			it.Snap = append(it.Snap, x.Entries...)
		}
		return it
	case Str:
		if x.Opaque {
			unsupported("range over an opaque formatted string")
		}
		return &MapIter{S: x, IsS: true}
	case Poison:
		unsupported("range over poisoned value: %s", x.Why)
	}
	panic(fmt.Sprintf("range over %T", x))
}

func (in *Interp) next(fr *frame, instr *ssa.Next, it *MapIter) Value {
	tb := in.tb
	if it.IsS {
		if it.I >= it.S.Len() {
			return Tuple{tb.False, tb.BV(64, 0), tb.BV(32, 0)}
		}
		idx := it.I
		if it.S.B == nil {
			r, sz := utf8.DecodeRuneInString(it.S.S[idx:])
			it.I += sz
			return Tuple{tb.True, tb.BV(64, uint64(idx)), tb.BV(32, uint64(uint32(r)))}
		}
		res := in.callPkgFunc(fr, "unicode/utf8", "DecodeRuneInString", Str{B: it.S.B[idx:]}).(Tuple)
		it.I += in.concreteInt(res[1], "rune size")
		return Tuple{tb.True, tb.BV(64, uint64(idx)), res[0]}
	}
	// map: skip entries deleted since the snapshot
	for it.I < len(it.Snap) {
		e := it.Snap[it.I]
		it.I++
		live := false
		for _, c := range it.M.Entries {
			if c == e {
				live = true
				break
			}
		}
		if live {
			return Tuple{tb.True, copyVal(e.K), copyVal(e.V)}
		}
	}
	mt := it.M
	var kz, vz Value
	if mt != nil {
		kz, vz = in.zero(mt.KT), in.zero(mt.VT)
	} else {
		// (a component the loop does not use has the invalid type: nothing to produce for it)
		tt := instr.Type().(*types.Tuple)
		zeroOf := func(t types.Type) Value {
			if b, ok := t.(*types.Basic); ok && b.Kind() == types.Invalid {
				return nil
			}
			return in.zero(t)
		}
		kz, vz = zeroOf(tt.At(1).Type()), zeroOf(tt.At(2).Type())
	}
	return Tuple{tb.False, kz, vz}
}

// ---------- maps ----------

// keyEq decides (forking if needed) whether two map keys are equal.
func (in *Interp) keyEq(kt types.Type, a, b Value) bool {
	c := in.equal(kt, a, b)
	return in.branch(c)
}

func (in *Interp) mapFind(m *Map, k Value) *MapEntry {
	if m == nil {
		return nil
	}
	// fast path: concrete scalar/string keys
	for _, e := range m.Entries {
		c := in.equal(m.KT, e.K, k)
		if c.IsTrue() {
			return e
		}
	}
	for _, e := range m.Entries {
		c := in.equal(m.KT, e.K, k)
		if c.IsFalse() {
			continue
		}
		if in.branch(c) {
			return e
		}
	}
	return nil
}

func (in *Interp) journalMap(m *Map) {
	if in.initing == 0 && in.p != nil {
		in.journal = append(in.journal, undo{m: m, ent: m.Entries})
	}
}

func (in *Interp) mapSet(m *Map, k, v Value) {
	if e := in.mapFind(m, k); e != nil {
		// entries are immutable records (for cheap journaling): replace
		in.journalMap(m)
		ne := make([]*MapEntry, len(m.Entries))
		copy(ne, m.Entries)
		for i, c := range ne {
			if c == e {
				ne[i] = &MapEntry{K: e.K, V: v}
			}
		}
		m.Entries = ne
		return
	}
	in.journalMap(m)
	ne := make([]*MapEntry, len(m.Entries), len(m.Entries)+1)
	copy(ne, m.Entries)
	m.Entries = append(ne, &MapEntry{K: copyVal(k), V: v})
}

func (in *Interp) mapDelete(m *Map, k Value) {
	if m == nil {
		return
	}
	e := in.mapFind(m, k)
	if e == nil {
		return
	}
	in.journalMap(m)
	ne := make([]*MapEntry, 0, len(m.Entries))
	for _, c := range m.Entries {
		if c != e {
			ne = append(ne, c)
		}
	}
	m.Entries = ne
}

func (in *Interp) lookup(fr *frame, instr *ssa.Lookup) Value {
	x := fr.get(instr.X)
	k := fr.get(instr.Index)
	switch x := x.(type) {
	case *Map:
		var v Value
		ok := false
		if e := in.mapFind(x, k); e != nil {
			v, ok = copyVal(e.V), true
		} else {
			v = in.zero(instr.X.Type().Underlying().(*types.Map).Elem())
		}
		if instr.CommaOk {
			return Tuple{v, in.tb.Bool(ok)}
		}
		return v
	case Str:
		_, signed, _, _ := scalarWidth(instr.Index.Type())
		return in.strIndex(instr.Pos(), x, k.(*smt.Term), signed)
	case Poison:
		unsupported("lookup in poisoned value: %s", x.Why)
	}
	panic(fmt.Sprintf("lookup in %T", x))
}

// ---------- channels ----------

func (in *Interp) chanSend(pos token.Pos, c Value, v Value) {
	ch, ok := c.(*Chan)
	if !ok {
		unsupported("send on %T", c)
	}
	if ch == nil {
		in.block(func() bool { return false })
	}
	if ch.Closed {
		panic(in.goPanicStr(pos, "send on closed channel"))
	}
	if ch.Cap > 0 {
		in.block(func() bool { return len(ch.Buf) < ch.Cap || ch.Closed })
		if ch.Closed {
			panic(in.goPanicStr(pos, "send on closed channel"))
		}
		ch.Buf = append(ch.Buf, v)
		return
	}
	ch.Buf = append(ch.Buf, v)
	ch.sent++
	my := ch.sent
	in.block(func() bool { return ch.recvd >= my })
}

func (in *Interp) chanRecv(pos token.Pos, c Value, et types.Type) (Value, bool) {
	ch, ok := c.(*Chan)
	if !ok {
		unsupported("receive on %T", c)
	}
	if ch == nil {
		in.block(func() bool { return false })
	}
	ch.recvWaiting++
	in.block(func() bool { return len(ch.Buf) > 0 || ch.Closed })
	ch.recvWaiting--
	if len(ch.Buf) > 0 {
		v := ch.Buf[0]
		ch.Buf = ch.Buf[1:]
		ch.recvd++
		return v, true
	}
	return in.zero(et), false
}

func (in *Interp) chanClose(pos token.Pos, c Value) {
	ch, ok := c.(*Chan)
	if !ok {
		unsupported("close of %T", c)
	}
	if ch == nil {
		panic(in.goPanicStr(pos, "close of nil channel"))
	}
	if ch.Closed {
		panic(in.goPanicStr(pos, "close of closed channel"))
	}
	ch.Closed = true
}

func (in *Interp) doSelect(fr *frame, instr *ssa.Select) Value {
	type st struct {
		ch  *Chan
		dir types.ChanDir
		v   Value
	}
	states := make([]st, len(instr.States))
	for i, s := range instr.States {
		ch, _ := fr.get(s.Chan).(*Chan)
		states[i] = st{ch: ch, dir: s.Dir}
		if s.Dir == types.SendOnly {
			states[i].v = fr.get(s.Send)
		}
	}
	readyIdx := func() int {
		// a value already handed over on an unbuffered channel is a committed rendezvous: the sender
		// has gone on, so this receive must be the case that is taken
		for i, s := range states {
			if s.ch != nil && s.dir == types.RecvOnly && s.ch.Cap == 0 && len(s.ch.Buf) > 0 {
				return i
			}
		}
		for i, s := range states {
			if s.ch == nil {
				continue
			}
			if s.dir == types.RecvOnly {
				if len(s.ch.Buf) > 0 || s.ch.Closed {
					return i
				}
			} else {
				if s.ch.Closed {
					return i
				}
				if s.ch.Cap > 0 && len(s.ch.Buf) < s.ch.Cap {
					return i
				}
				if s.ch.Cap == 0 && s.ch.recvWaiting > 0 && len(s.ch.Buf) == 0 {
					return i
				}
			}
		}
		return -1
	}
	idx := readyIdx()
	if idx < 0 && instr.Blocking {
		for _, s := range states {
			if s.ch != nil && s.dir == types.RecvOnly {
				s.ch.recvWaiting++
			}
		}
		in.block(func() bool { return readyIdx() >= 0 })
		for _, s := range states {
			if s.ch != nil && s.dir == types.RecvOnly {
				s.ch.recvWaiting--
			}
		}
		idx = readyIdx()
	}
	tb := in.tb
	res := Tuple{tb.BV(64, uint64(int64(idx))), tb.False}
	var recvd []Value
	for i, s := range instr.States {
		if s.Dir != types.RecvOnly {
			continue
		}
		et := s.Chan.Type().Underlying().(*types.Chan).Elem()
		if i == idx {
			ch := states[i].ch
			if len(ch.Buf) > 0 {
				v := ch.Buf[0]
				ch.Buf = ch.Buf[1:]
				ch.recvd++
				recvd = append(recvd, v)
				res[1] = tb.True
			} else {
				recvd = append(recvd, in.zero(et))
			}
		} else {
			recvd = append(recvd, in.zero(et))
		}
	}
	if idx >= 0 && instr.States[idx].Dir == types.SendOnly {
		ch := states[idx].ch
		if ch.Closed {
			panic(in.goPanicStr(instr.Pos(), "send on closed channel"))
		}
		ch.Buf = append(ch.Buf, states[idx].v)
		if ch.Cap == 0 {
			ch.sent++
		}
	}
	return append(res, recvd...)
}

// ---------- builtins ----------

func nextSliceCap(newLen, oldCap int) int {
	newcap := oldCap
	doublecap := newcap + newcap
	if newLen > doublecap {
		return newLen
	}
	const threshold = 256
	if oldCap < threshold {
		return doublecap
	}
	for {
		newcap += (newcap + 3*threshold) >> 2
		if uint(newcap) >= uint(newLen) {
			break
		}
	}
	if newcap <= 0 {
		return newLen
	}
	return newcap
}

func (in *Interp) appendVals(s Slice, add []Value) Slice {
	if len(add) == 0 {
		return s
	}
	n := len(s) + len(add)
	if n <= cap(s) {
		r := s[:n]
		for i, v := range add {
			in.storeCell(&r[len(s)+i], v)
		}
		return r
	}
	nc := nextSliceCap(n, cap(s))
	r := make(Slice, n, nc)
	for i, v := range s {
		r[i] = copyVal(v)
	}
	for i, v := range add {
		r[len(s)+i] = copyVal(v)
	}
	return r
}

func (in *Interp) callBuiltin(caller *frame, pos token.Pos, fn *ssa.Builtin, args []Value) Value {
	tb := in.tb
	for _, a := range args {
		if p, isP := a.(Poison); isP {
			unsupported("builtin %s on poisoned value: %s", fn.Name(), p.Why)
		}
	}
	switch fn.Name() {
	case "append":
		s, _ := args[0].(Slice)
		if len(args) == 1 {
			return s
		}
		var add []Value
		switch t := args[1].(type) {
		case Str:
			if t.Opaque {
				unsupported("append of an opaque formatted string")
			}
			for _, b := range in.strBytes(t) {
				add = append(add, b)
			}
		case Slice:
			add = t
		default:
			unsupported("append of %T", args[1])
		}
		if len(add) == 0 {
			return s
		}
		// the spread slice may alias s: copy first
		add = append([]Value{}, add...)
		r := in.appendVals(s, add)
		// zero the spare capacity cells lazily: make() of Slice leaves nil cells beyond len
		et := fn.Type().(*types.Signature).Params().At(0).Type().Underlying().(*types.Slice).Elem()
		full := r[:cap(r)]
		for i := len(r); i < len(full); i++ {
			if full[i] == nil {
				full[i] = in.zero(et)
			}
		}
		return r
	case "copy":
		dst, _ := args[0].(Slice)
		var src []Value
		switch t := args[1].(type) {
		case Str:
			for _, b := range in.strBytes(t) {
				src = append(src, b)
			}
		case Slice:
			src = append([]Value{}, t...)
		}
		n := len(dst)
		if len(src) < n {
			n = len(src)
		}
		for i := 0; i < n; i++ {
			in.storeCell(&dst[i], copyVal(src[i]))
		}
		return tb.BV(64, uint64(n))
	case "close":
		in.chanClose(pos, args[0])
		return nil
	case "delete":
		m, _ := args[0].(*Map)
		in.mapDelete(m, args[1])
		return nil
	case "clear":
		switch x := args[0].(type) {
		case *Map:
			if x != nil {
				in.journalMap(x)
				x.Entries = nil
			}
		case Slice:
			et := fn.Type().(*types.Signature).Params().At(0).Type().Underlying().(*types.Slice).Elem()
			for i := range x {
				in.storeCell(&x[i], in.zero(et))
			}
		}
		return nil
	case "print", "println":
		if in.trace {
			var ss []string
			for _, a := range args {
				ss = append(ss, in.show(a))
			}
			fmt.Fprintln(os.Stderr, "print:", strings.Join(ss, " "))
		}
		return nil
	case "len":
		switch x := args[0].(type) {
		case Str:
			return tb.BV(64, uint64(x.Len()))
		case Slice:
			return tb.BV(64, uint64(len(x)))
		case Array:
			return tb.BV(64, uint64(len(x)))
		case *Map:
			if x == nil {
				return tb.BV(64, 0)
			}
			return tb.BV(64, uint64(len(x.Entries)))
		case *Chan:
			if x == nil {
				return tb.BV(64, 0)
			}
			return tb.BV(64, uint64(len(x.Buf)))
		case Ptr:
			if x.C != nil {
				if a, ok := (*x.C).(Array); ok {
					return tb.BV(64, uint64(len(a)))
				}
			}
		}
		unsupported("len of %T", args[0])
	case "cap":
		switch x := args[0].(type) {
		case Slice:
			return tb.BV(64, uint64(cap(x)))
		case Array:
			return tb.BV(64, uint64(len(x)))
		case *Chan:
			if x == nil {
				return tb.BV(64, 0)
			}
			return tb.BV(64, uint64(x.Cap))
		case Ptr:
			if x.C != nil {
				if a, ok := (*x.C).(Array); ok {
					return tb.BV(64, uint64(len(a)))
				}
			}
		}
		unsupported("cap of %T", args[0])
	case "min", "max":
		sig := fn.Type().(*types.Signature)
		t := sig.Params().At(0).Type()
		res := args[0]
		for _, a := range args[1:] {
			var lt *smt.Term
			if fn.Name() == "min" {
				lt = in.binop(pos, token.LSS, t, t, a, res).(*smt.Term)
			} else {
				lt = in.binop(pos, token.GTR, t, t, a, res).(*smt.Term)
			}
			v, ok := in.iteVal(lt, a, res)
			if !ok {
				unsupported("min/max merge")
			}
			res = v
		}
		return res
	case "panic":
		panic(goPanic{v: args[0], msg: in.panicMsg(caller, args[0]), pos: pos})
	case "recover":
		return in.doRecover(caller)
	case "ssa:wrapnilchk":
		if p, ok := args[0].(Ptr); ok && p.C == nil {
			in.rtPanic(pos, "value method called using nil pointer")
		}
		return args[0]
	case "SliceData":
		s, _ := args[0].(Slice)
		return SliceDataPtr{S: s}
	case "StringData":
		return SliceDataPtr{Str: args[0].(Str), IsS: true}
	case "String":
		n := in.concreteInt(args[1], "unsafe.String len")
		switch p := args[0].(type) {
		case SliceDataPtr:
			if p.IsS {
				if p.Str.B != nil {
					return Str{B: p.Str.B[:n]}
				}
				return Str{S: p.Str.S[:n]}
			}
			bs := make([]*smt.Term, n)
			for i := 0; i < n; i++ {
				bs[i] = p.S[i].(*smt.Term)
			}
			return in.mkStr(bs)
		case Ptr:
			if n == 0 {
				return Str{}
			}
		}
		unsupported("unsafe.String of %T", args[0])
	case "Slice":
		n := in.concreteInt(args[1], "unsafe.Slice len")
		switch p := args[0].(type) {
		case SliceDataPtr:
			if p.IsS {
				bs := in.strBytes(p.Str)
				r := make(Slice, n)
				for i := 0; i < n; i++ {
					r[i] = bs[i]
				}
				return r
			}
			return p.S[:n:n]
		case Ptr:
			if n == 0 {
				return Slice(nil)
			}
		}
		unsupported("unsafe.Slice of %T", args[0])
	}
	unsupported("builtin %s", fn.Name())
	return nil
}

func (in *Interp) doRecover(caller *frame) Value {
	// recover() must be called directly by the deferred function
	if caller != nil && caller.caller != nil && caller.caller.panicking {
		pf := caller.caller
		pf.panicking = false
		gp := pf.panicVal.(goPanic)
		pf.panicVal = nil
		if i, ok := gp.v.(Iface); ok {
			return i
		}
		return Iface{T: types.Typ[types.String], V: Str{S: gp.msg}}
	}
	return Iface{}
}
