package interp

import (
	"fmt"
	"go/token"
	"go/types"
	"math"
	"strings"

	"golang.org/x/tools/go/ssa"

	"symgo/smt"
)

type Intercept func(in *Interp, caller *frame, pos token.Pos, fn *ssa.Function, args []Value) Value

const RTPkg = "github.com/blevesearch/bleve/v2/internal/verifrt"

var intercepts = map[string]Intercept{}

func reg(name string, f Intercept) { intercepts[name] = f }

func term(v Value) *smt.Term {
	t, ok := v.(*smt.Term)
	if !ok {
		if p, isP := v.(Poison); isP {
			unsupported("poisoned value: %s", p.Why)
		}
		panic(fmt.Sprintf("expected scalar, got %T", v))
	}
	return t
}

func (in *Interp) concreteStr(v Value, what string) string {
	s, ok := v.(Str)
	if !ok || !s.IsConcrete() {
		unsupported("%s must be a concrete string", what)
	}
	return s.Concrete()
}

// cellOf returns the cell a pointer points to.
func cellOf(v Value) *Value {
	p, ok := v.(Ptr)
	if !ok {
		unsupported("pointer expected, got %T", v)
	}
	return p.C
}

func (in *Interp) noteUsed(what string) {
	if in.sink != nil {
		in.sink.count("used:"+what, 1)
	}
}

// ---------- sync side tables ----------

type mutexState struct {
	locked  bool
	readers int
}

func (in *Interp) mutexOf(pos token.Pos, v Value) *mutexState {
	c := cellOf(v)
	if c == nil {
		in.rtPanic(pos, "nil pointer dereference (nil mutex)")
	}
	if in.p == nil {
		return &mutexState{}
	}
	if s, ok := in.p.sync[c]; ok {
		return s.(*mutexState)
	}
	s := &mutexState{}
	in.p.sync[c] = s
	return s
}

type wgState struct{ n int }

func (in *Interp) wgOf(v Value) *wgState {
	c := cellOf(v)
	if in.p == nil {
		return &wgState{}
	}
	if s, ok := in.p.sync[c]; ok {
		return s.(*wgState)
	}
	s := &wgState{}
	in.p.sync[c] = s
	return s
}

func init() {
	// ----- verifrt -----
	nd := func(kind string, w int) Intercept {
		return func(in *Interp, caller *frame, pos token.Pos, fn *ssa.Function, args []Value) Value {
			return in.nondet(in.concreteStr(args[0], "nondet label"), kind, w)
		}
	}
	reg(RTPkg+".U8", nd("u8", 8))
	reg(RTPkg+".U16", nd("u16", 16))
	reg(RTPkg+".U32", nd("u32", 32))
	reg(RTPkg+".U64", nd("u64", 64))
	reg(RTPkg+".I64", nd("i64", 64))
	reg(RTPkg+".Int", nd("int", 64))
	reg(RTPkg+".F64", nd("f64", 64))
	reg(RTPkg+".Bool", nd("bool", 0))
	reg(RTPkg+".Bytes", func(in *Interp, caller *frame, pos token.Pos, fn *ssa.Function, args []Value) Value {
		label := in.concreteStr(args[0], "nondet label")
		n := in.concreteInt(args[1], "Bytes length")
		s := make(Slice, n)
		for i := range s {
			s[i] = in.nondet(label, "u8", 8)
		}
		return s
	})
	reg(RTPkg+".String", func(in *Interp, caller *frame, pos token.Pos, fn *ssa.Function, args []Value) Value {
		label := in.concreteStr(args[0], "nondet label")
		n := in.concreteInt(args[1], "String length")
		if n == 0 {
			return Str{}
		}
		bs := make([]*smt.Term, n)
		for i := range bs {
			bs[i] = in.nondet(label, "u8", 8)
		}
		return Str{B: bs}
	})
	reg(RTPkg+".Choice", func(in *Interp, caller *frame, pos token.Pos, fn *ssa.Function, args []Value) Value {
		label := in.concreteStr(args[0], "nondet label")
		n := in.concreteInt(args[1], "Choice n")
		if n <= 0 {
			unsupported("Choice(%d)", n)
		}
		v := in.nondet(label, "choice", 64)
		conds := make([]*smt.Term, n)
		for i := range conds {
			conds[i] = in.tb.Eq(v, in.tb.BV(64, uint64(i)))
		}
		k := in.choose(conds)
		return in.tb.BV(64, uint64(k))
	})
	reg(RTPkg+".Param", func(in *Interp, caller *frame, pos token.Pos, fn *ssa.Function, args []Value) Value {
		name := in.concreteStr(args[0], "param name")
		def := in.concreteInt(args[1], "param default")
		if v, ok := in.cfg.Params[name]; ok {
			def = v
		}
		if in.sink != nil {
			in.sink.mu.Lock()
			in.sink.Counters["param:"+name] = def
			in.sink.mu.Unlock()
		}
		return in.tb.BV(64, uint64(int64(def)))
	})
	reg(RTPkg+".Symbolic", func(in *Interp, caller *frame, pos token.Pos, fn *ssa.Function, args []Value) Value {
		return in.tb.True
	})
	reg(RTPkg+".Assume", func(in *Interp, caller *frame, pos token.Pos, fn *ssa.Function, args []Value) Value {
		in.doAssume(term(args[0]))
		return nil
	})
	reg(RTPkg+".Assert", func(in *Interp, caller *frame, pos token.Pos, fn *ssa.Function, args []Value) Value {
		in.doAssert(term(args[0]), in.concreteStr(args[1], "assert label"))
		return nil
	})
	reg(RTPkg+".Cover", func(in *Interp, caller *frame, pos token.Pos, fn *ssa.Function, args []Value) Value {
		in.doCover(term(args[0]), in.concreteStr(args[1], "cover label"))
		return nil
	})
	reg(RTPkg+".Fail", func(in *Interp, caller *frame, pos token.Pos, fn *ssa.Function, args []Value) Value {
		in.doAssert(in.tb.False, in.concreteStr(args[0], "fail label"))
		return nil
	})
	reg(RTPkg+".And", func(in *Interp, caller *frame, pos token.Pos, fn *ssa.Function, args []Value) Value {
		r := in.tb.True
		for _, a := range args[0].(Slice) {
			r = in.tb.And(r, term(a))
		}
		return r
	})
	reg(RTPkg+".Or", func(in *Interp, caller *frame, pos token.Pos, fn *ssa.Function, args []Value) Value {
		r := in.tb.False
		for _, a := range args[0].(Slice) {
			r = in.tb.Or(r, term(a))
		}
		return r
	})
	reg(RTPkg+".Implies", func(in *Interp, caller *frame, pos token.Pos, fn *ssa.Function, args []Value) Value {
		return in.tb.Implies(term(args[0]), term(args[1]))
	})
	reg(RTPkg+".Not", func(in *Interp, caller *frame, pos token.Pos, fn *ssa.Function, args []Value) Value {
		return in.tb.Not(term(args[0]))
	})
	iteI := func(in *Interp, caller *frame, pos token.Pos, fn *ssa.Function, args []Value) Value {
		v, ok := in.iteVal(term(args[0]), args[1], args[2])
		if !ok {
			unsupported("Ite on non-mergeable values")
		}
		return v
	}
	for _, n := range []string{"IteU64", "IteI64", "IteInt", "IteU8", "IteBool", "IteF64", "IteString"} {
		reg(RTPkg+"."+n, iteI)
	}
	reg(RTPkg+".Popcount64", func(in *Interp, caller *frame, pos token.Pos, fn *ssa.Function, args []Value) Value {
		return in.tb.Popcount(term(args[0]))
	})
	reg(RTPkg+".EqBytes", func(in *Interp, caller *frame, pos token.Pos, fn *ssa.Function, args []Value) Value {
		a, b := args[0].(Slice), args[1].(Slice)
		if len(a) != len(b) {
			return in.tb.False
		}
		r := in.tb.True
		for i := range a {
			r = in.tb.And(r, in.tb.Eq(term(a[i]), term(b[i])))
		}
		return r
	})
	reg(RTPkg+".LessBytes", func(in *Interp, caller *frame, pos token.Pos, fn *ssa.Function, args []Value) Value {
		c := in.bytesCompare(sliceTerms(args[0]), sliceTerms(args[1]))
		return in.tb.Cmp(smt.OpSlt, c, in.tb.BV(64, 0))
	})
	reg(RTPkg+".EqString", func(in *Interp, caller *frame, pos token.Pos, fn *ssa.Function, args []Value) Value {
		return in.strEq(args[0].(Str), args[1].(Str))
	})
	reg(RTPkg+".LessString", func(in *Interp, caller *frame, pos token.Pos, fn *ssa.Function, args []Value) Value {
		return in.strLess(args[0].(Str), args[1].(Str), false)
	})
	reg(RTPkg+".Note", func(in *Interp, caller *frame, pos token.Pos, fn *ssa.Function, args []Value) Value {
		if in.p != nil && len(in.p.notes) < 16 {
			in.p.notes = append(in.p.notes, in.concreteStr(args[0], "note key")+"="+in.show(args[1].(Iface).V))
		}
		return nil
	})
	reg(RTPkg+".Steps", func(in *Interp, caller *frame, pos token.Pos, fn *ssa.Function, args []Value) Value {
		return in.tb.BV(64, uint64(in.p.steps))
	})
	reg(RTPkg+".MutexFree", func(in *Interp, caller *frame, pos token.Pos, fn *ssa.Function, args []Value) Value {
		a := args[0]
		if i, ok := a.(Iface); ok {
			a = i.V
		}
		s := in.mutexOf(pos, a)
		return in.tb.Bool(!s.locked && s.readers == 0)
	})

	// ----- sync -----
	reg("(*sync.Mutex).Lock", func(in *Interp, caller *frame, pos token.Pos, fn *ssa.Function, args []Value) Value {
		s := in.mutexOf(pos, args[0])
		in.block(func() bool { return !s.locked })
		s.locked = true
		return nil
	})
	reg("(*sync.Mutex).TryLock", func(in *Interp, caller *frame, pos token.Pos, fn *ssa.Function, args []Value) Value {
		s := in.mutexOf(pos, args[0])
		if s.locked {
			return in.tb.False
		}
		s.locked = true
		return in.tb.True
	})
	reg("(*sync.Mutex).Unlock", func(in *Interp, caller *frame, pos token.Pos, fn *ssa.Function, args []Value) Value {
		s := in.mutexOf(pos, args[0])
		if !s.locked {
			panic(in.goPanicStr(pos, "fatal error: sync: unlock of unlocked mutex"))
		}
		s.locked = false
		in.yield()
		return nil
	})
	reg("(*sync.RWMutex).Lock", func(in *Interp, caller *frame, pos token.Pos, fn *ssa.Function, args []Value) Value {
		s := in.mutexOf(pos, args[0])
		in.block(func() bool { return !s.locked && s.readers == 0 })
		s.locked = true
		return nil
	})
	reg("(*sync.RWMutex).TryLock", func(in *Interp, caller *frame, pos token.Pos, fn *ssa.Function, args []Value) Value {
		s := in.mutexOf(pos, args[0])
		if s.locked || s.readers > 0 {
			return in.tb.False
		}
		s.locked = true
		return in.tb.True
	})
	reg("(*sync.RWMutex).Unlock", func(in *Interp, caller *frame, pos token.Pos, fn *ssa.Function, args []Value) Value {
		s := in.mutexOf(pos, args[0])
		if !s.locked {
			panic(in.goPanicStr(pos, "fatal error: sync: Unlock of unlocked RWMutex"))
		}
		s.locked = false
		in.yield()
		return nil
	})
	reg("(*sync.RWMutex).RLock", func(in *Interp, caller *frame, pos token.Pos, fn *ssa.Function, args []Value) Value {
		s := in.mutexOf(pos, args[0])
		in.block(func() bool { return !s.locked })
		s.readers++
		return nil
	})
	reg("(*sync.RWMutex).TryRLock", func(in *Interp, caller *frame, pos token.Pos, fn *ssa.Function, args []Value) Value {
		s := in.mutexOf(pos, args[0])
		if s.locked {
			return in.tb.False
		}
		s.readers++
		return in.tb.True
	})
	reg("(*sync.RWMutex).RUnlock", func(in *Interp, caller *frame, pos token.Pos, fn *ssa.Function, args []Value) Value {
		s := in.mutexOf(pos, args[0])
		if s.readers <= 0 {
			panic(in.goPanicStr(pos, "fatal error: sync: RUnlock of unlocked RWMutex"))
		}
		s.readers--
		in.yield()
		return nil
	})
	reg("(*sync.WaitGroup).Add", func(in *Interp, caller *frame, pos token.Pos, fn *ssa.Function, args []Value) Value {
		s := in.wgOf(args[0])
		s.n += in.concreteInt(args[1], "WaitGroup delta")
		if s.n < 0 {
			panic(in.goPanicStr(pos, "sync: negative WaitGroup counter"))
		}
		return nil
	})
	reg("(*sync.WaitGroup).Done", func(in *Interp, caller *frame, pos token.Pos, fn *ssa.Function, args []Value) Value {
		s := in.wgOf(args[0])
		s.n--
		if s.n < 0 {
			panic(in.goPanicStr(pos, "sync: negative WaitGroup counter"))
		}
		return nil
	})
	reg("(*sync.WaitGroup).Wait", func(in *Interp, caller *frame, pos token.Pos, fn *ssa.Function, args []Value) Value {
		s := in.wgOf(args[0])
		in.block(func() bool { return s.n == 0 })
		return nil
	})
	reg("(*sync.WaitGroup).Go", func(in *Interp, caller *frame, pos token.Pos, fn *ssa.Function, args []Value) Value {
		s := in.wgOf(args[0])
		s.n++
		f := args[1]
		wrapper := &goWrap{f: f, done: func() { s.n-- }}
		in.goStart(caller, pos, wrapper, nil)
		return nil
	})
	reg("(*sync.Once).Do", func(in *Interp, caller *frame, pos token.Pos, fn *ssa.Function, args []Value) Value {
		c := cellOf(args[0])
		key := onceKey{c}
		if in.p != nil {
			if _, done := in.p.sync[key]; done {
				return nil
			}
			in.p.sync[key] = true
		} else {
			// during initialisation: use the struct's own done flag is not needed; run always once per worker
			if in.onceInit == nil {
				in.onceInit = map[*Value]bool{}
			}
			if in.onceInit[c] {
				return nil
			}
			in.onceInit[c] = true
		}
		in.callValue(caller, pos, args[1], nil)
		return nil
	})
	// sync.Pool: by default every Get builds a new object (a pool may always do that). With the harness
	// bound pool_reuse=1 a Get returns the most recently Put object when there is one (what a real pool
	// does on one goroutine without GC in between), so state left behind in pooled objects is visible.
	reg("(*sync.Pool).Get", func(in *Interp, caller *frame, pos token.Pos, fn *ssa.Function, args []Value) Value {
		c := cellOf(args[0])
		if in.p != nil && in.cfg.Params["pool_reuse"] == 1 {
			if st, ok := in.p.sync[poolKey{c}].(*poolState); ok && len(st.items) > 0 {
				v := st.items[len(st.items)-1]
				st.items = st.items[:len(st.items)-1]
				in.noteUsed("sync.Pool with reuse (LIFO)")
				return v
			}
		}
		st := (*c).(Struct)
		// the New field is the last field of sync.Pool
		newf := st[len(st)-1]
		if cl, ok := newf.(*Closure); ok && cl != nil {
			return in.callValue(caller, pos, cl, nil)
		}
		return Iface{}
	})
	reg("(*sync.Pool).Put", func(in *Interp, caller *frame, pos token.Pos, fn *ssa.Function, args []Value) Value {
		if in.p != nil && in.cfg.Params["pool_reuse"] == 1 {
			c := cellOf(args[0])
			st, ok := in.p.sync[poolKey{c}].(*poolState)
			if !ok {
				st = &poolState{}
				in.p.sync[poolKey{c}] = st
			}
			if i, isI := args[1].(Iface); !isI || i.T != nil {
				st.items = append(st.items, args[1])
			}
		}
		return nil
	})
	reg("(*sync/atomic.Value).Load", func(in *Interp, caller *frame, pos token.Pos, fn *ssa.Function, args []Value) Value {
		c := cellOf(args[0])
		st := (*c).(Struct)
		return st[0]
	})
	reg("(*sync/atomic.Value).Store", func(in *Interp, caller *frame, pos token.Pos, fn *ssa.Function, args []Value) Value {
		c := cellOf(args[0])
		st := (*c).(Struct)
		if args[1].(Iface).T == nil {
			panic(in.goPanicStr(pos, "sync/atomic: store of nil value into Value"))
		}
		in.storeCell(&st[0], args[1])
		return nil
	})

	// ----- runtime, misc -----
	nop := func(in *Interp, caller *frame, pos token.Pos, fn *ssa.Function, args []Value) Value { return nil }
	for _, n := range []string{"runtime.KeepAlive", "runtime.SetFinalizer", "runtime.GC", "(*strings.Builder).copyCheck",
		"log.Printf", "log.Println", "log.Print", "(*log.Logger).Printf", "(*log.Logger).Println", "(*log.Logger).Print",
		"runtime/debug.SetGCPercent", "internal/race.Acquire", "internal/race.Release", "internal/race.ReleaseMerge", "internal/race.Disable", "internal/race.Enable",
		"internal/race.Read", "internal/race.Write", "internal/race.ReadRange", "internal/race.WriteRange"} {
		reg(n, nop)
	}
	// functions replaced by "returns the zero value": expensive initialisers whose results the kernels never use
	for _, n := range []string{"github.com/blevesearch/vellum/levenshtein.NewLevenshteinAutomatonBuilder"} {
		name := n
		reg(name, func(in *Interp, caller *frame, pos token.Pos, fn *ssa.Function, args []Value) Value {
			in.noteUsed("stubbed to zero value: " + name)
			return in.zeroResults(fn)
		})
	}
	for _, n := range []string{"strings.Clone", "internal/stringslite.Clone"} {
		reg(n, func(in *Interp, caller *frame, pos token.Pos, fn *ssa.Function, args []Value) Value {
			return args[0]
		})
	}
	// timers: an arbitrary amount of time may pass at any point, so a timer channel is ready at once
	// (a select with other ready cases then has several enabled alternatives)
	reg("time.After", func(in *Interp, caller *frame, pos token.Pos, fn *ssa.Function, args []Value) Value {
		in.noteUsed("time.After fires at once (arbitrary delays)")
		tt := fn.Signature.Results().At(0).Type().Underlying().(*types.Chan).Elem()
		return &Chan{Cap: 1, ET: tt, Buf: []Value{in.zero(tt)}}
	})
	// context.WithValue: the real constructor minus its reflection-based "key is comparable" check
	reg("context.WithValue", func(in *Interp, caller *frame, pos token.Pos, fn *ssa.Function, args []Value) Value {
		parent, _ := args[0].(Iface)
		if parent.T == nil {
			panic(in.goPanicStr(pos, "cannot create context from nil parent"))
		}
		if k, _ := args[1].(Iface); k.T == nil {
			panic(in.goPanicStr(pos, "nil key"))
		}
		pkg := in.prog.ImportedPackage("context")
		vt := pkg.Type("valueCtx")
		if vt == nil {
			unsupported("context.valueCtx not found")
		}
		st := vt.Type().Underlying().(*types.Struct)
		z := in.zero(vt.Type()).(Struct)
		for i := 0; i < st.NumFields(); i++ {
			switch st.Field(i).Name() {
			case "Context":
				z[i] = args[0]
			case "key":
				z[i] = args[1]
			case "val":
				z[i] = args[2]
			}
		}
		c := new(Value)
		*c = z
		return Iface{T: types.NewPointer(vt.Type()), V: Ptr{c}}
	})
	reg("time.Sleep", func(in *Interp, caller *frame, pos token.Pos, fn *ssa.Function, args []Value) Value {
		in.yield()
		return nil
	})
	reg("runtime.Gosched", func(in *Interp, caller *frame, pos token.Pos, fn *ssa.Function, args []Value) Value {
		in.yield()
		return nil
	})
	reg("runtime.NumCPU", func(in *Interp, caller *frame, pos token.Pos, fn *ssa.Function, args []Value) Value {
		return in.tb.BV(64, 4)
	})
	reg("runtime.GOMAXPROCS", func(in *Interp, caller *frame, pos token.Pos, fn *ssa.Function, args []Value) Value {
		return in.tb.BV(64, 4)
	})
	reg("internal/abi.NoEscape", func(in *Interp, caller *frame, pos token.Pos, fn *ssa.Function, args []Value) Value {
		return args[0]
	})
	reg("internal/abi.Escape", func(in *Interp, caller *frame, pos token.Pos, fn *ssa.Function, args []Value) Value {
		return args[0]
	})
	reg("reflect.TypeOf", func(in *Interp, caller *frame, pos token.Pos, fn *ssa.Function, args []Value) Value {
		i := args[0].(Iface)
		if i.T == nil {
			return Iface{}
		}
		return Iface{T: fn.Signature.Results().At(0).Type(), V: RType{T: i.T}}
	})
	reg("internal/bytealg.MakeNoZero", func(in *Interp, caller *frame, pos token.Pos, fn *ssa.Function, args []Value) Value {
		n := in.concreteInt(args[0], "MakeNoZero len")
		s := make(Slice, n)
		for i := range s {
			s[i] = in.tb.BV(8, 0)
		}
		return s
	})
	reg("internal/bytealg.Compare", func(in *Interp, caller *frame, pos token.Pos, fn *ssa.Function, args []Value) Value {
		return in.bytesCompare(sliceTerms(args[0]), sliceTerms(args[1]))
	})
	reg("bytes.Compare", func(in *Interp, caller *frame, pos token.Pos, fn *ssa.Function, args []Value) Value {
		return in.bytesCompare(sliceTerms(args[0]), sliceTerms(args[1]))
	})
	reg("bytes.Equal", func(in *Interp, caller *frame, pos token.Pos, fn *ssa.Function, args []Value) Value {
		a, b := sliceTerms(args[0]), sliceTerms(args[1])
		if len(a) != len(b) {
			return in.tb.False
		}
		r := in.tb.True
		for i := range a {
			r = in.tb.And(r, in.tb.Eq(a[i], b[i]))
		}
		return r
	})
	reg("strings.Compare", func(in *Interp, caller *frame, pos token.Pos, fn *ssa.Function, args []Value) Value {
		return in.bytesCompare(in.strBytes(args[0].(Str)), in.strBytes(args[1].(Str)))
	})
	reg("internal/bytealg.IndexByte", func(in *Interp, caller *frame, pos token.Pos, fn *ssa.Function, args []Value) Value {
		return in.indexByte(sliceTerms(args[0]), term(args[1]))
	})
	reg("internal/bytealg.IndexByteString", func(in *Interp, caller *frame, pos token.Pos, fn *ssa.Function, args []Value) Value {
		return in.indexByte(in.strBytes(args[0].(Str)), term(args[1]))
	})
	reg("internal/bytealg.IndexString", func(in *Interp, caller *frame, pos token.Pos, fn *ssa.Function, args []Value) Value {
		return in.indexSub(in.strBytes(args[0].(Str)), in.strBytes(args[1].(Str)))
	})
	reg("internal/bytealg.Index", func(in *Interp, caller *frame, pos token.Pos, fn *ssa.Function, args []Value) Value {
		return in.indexSub(sliceTerms(args[0]), sliceTerms(args[1]))
	})
	reg("internal/bytealg.CountString", func(in *Interp, caller *frame, pos token.Pos, fn *ssa.Function, args []Value) Value {
		return in.countByte(in.strBytes(args[0].(Str)), term(args[1]))
	})
	reg("internal/bytealg.Count", func(in *Interp, caller *frame, pos token.Pos, fn *ssa.Function, args []Value) Value {
		return in.countByte(sliceTerms(args[0]), term(args[1]))
	})

	// math: bit casts are the identity on carriers
	ident := func(in *Interp, caller *frame, pos token.Pos, fn *ssa.Function, args []Value) Value { return args[0] }
	for _, n := range []string{"math.Float64bits", "math.Float64frombits", "math.Float32bits", "math.Float32frombits"} {
		reg(n, ident)
	}
	reg("math.Sqrt", func(in *Interp, caller *frame, pos token.Pos, fn *ssa.Function, args []Value) Value {
		return in.tb.FSqrt(term(args[0]))
	})
	mathNative := map[string]func(float64) float64{
		"math.Floor": math.Floor, "math.Ceil": math.Ceil, "math.Trunc": math.Trunc, "math.Log": math.Log, "math.Exp": math.Exp,
		"math.Sin": math.Sin, "math.Cos": math.Cos, "math.Tan": math.Tan, "math.Asin": math.Asin, "math.Acos": math.Acos, "math.Atan": math.Atan,
		"math.Log2": math.Log2, "math.Log10": math.Log10, "math.Log1p": math.Log1p, "math.Round": math.Round,
		"math.archFloor": math.Floor, "math.archCeil": math.Ceil, "math.archTrunc": math.Trunc, "math.archSqrt": math.Sqrt,
		"math.archLog": math.Log, "math.archExp": math.Exp,
	}
	for n, f := range mathNative {
		f := f
		n := n
		reg(n, func(in *Interp, caller *frame, pos token.Pos, fn *ssa.Function, args []Value) Value {
			x := term(args[0])
			if u, ok := in.uniqueValue(x); ok {
				return in.tb.BV(64, math.Float64bits(f(math.Float64frombits(u.C))))
			}
			in.noteUsed("uninterpreted " + n)
			return in.tb.UF("uf_"+strings.ReplaceAll(n, ".", "_"), 64, x)
		})
	}
	math2 := map[string]func(float64, float64) float64{"math.Pow": math.Pow, "math.Atan2": math.Atan2, "math.Mod": math.Mod, "math.Hypot": math.Hypot}
	for n, f := range math2 {
		f := f
		n := n
		reg(n, func(in *Interp, caller *frame, pos token.Pos, fn *ssa.Function, args []Value) Value {
			x, y := term(args[0]), term(args[1])
			if ux, ok := in.uniqueValue(x); ok {
				if uy, ok := in.uniqueValue(y); ok {
					return in.tb.BV(64, math.Float64bits(f(math.Float64frombits(ux.C), math.Float64frombits(uy.C))))
				}
			}
			in.noteUsed("uninterpreted " + n)
			return in.tb.UF("uf_"+strings.ReplaceAll(n, ".", "_"), 64, x, y)
		})
	}
	// math.Min / math.Max: exact on forced-constant arguments; otherwise the comparison form with NaN
	// propagation (the sign of a zero result is not modelled, and noted)
	for _, n := range []string{"math.Min", "math.Max"} {
		n := n
		reg(n, func(in *Interp, caller *frame, pos token.Pos, fn *ssa.Function, args []Value) Value {
			x, y := term(args[0]), term(args[1])
			if ux, ok := in.uniqueValue(x); ok {
				if uy, ok := in.uniqueValue(y); ok {
					a, b := math.Float64frombits(ux.C), math.Float64frombits(uy.C)
					if n == "math.Min" {
						return in.tb.BV(64, math.Float64bits(math.Min(a, b)))
					}
					return in.tb.BV(64, math.Float64bits(math.Max(a, b)))
				}
			}
			in.noteUsed(n + " by comparison (sign of zero not modelled)")
			var pick *smt.Term
			if n == "math.Min" {
				pick = in.tb.Ite(in.tb.FCmp(smt.OpFLt, x, y), x, y)
			} else {
				pick = in.tb.Ite(in.tb.FCmp(smt.OpFLt, y, x), x, y)
			}
			nan := in.tb.BV(64, math.Float64bits(math.NaN()))
			return in.tb.Ite(in.tb.Or(in.tb.FIsNaN(x), in.tb.FIsNaN(y)), nan, pick)
		})
	}
	reg("math/bits.OnesCount64", func(in *Interp, caller *frame, pos token.Pos, fn *ssa.Function, args []Value) Value {
		return in.tb.Popcount(term(args[0]))
	})
	reg("math/bits.OnesCount32", func(in *Interp, caller *frame, pos token.Pos, fn *ssa.Function, args []Value) Value {
		return in.tb.ZExt(in.tb.Popcount(term(args[0])), 64)
	})
	reg("math/bits.TrailingZeros64", func(in *Interp, caller *frame, pos token.Pos, fn *ssa.Function, args []Value) Value {
		return in.trailingZeros(term(args[0]))
	})
	reg("math/bits.LeadingZeros64", func(in *Interp, caller *frame, pos token.Pos, fn *ssa.Function, args []Value) Value {
		return in.tb.Sub(in.tb.BV(64, 64), in.bitLen(term(args[0])))
	})
	reg("math/bits.Len64", func(in *Interp, caller *frame, pos token.Pos, fn *ssa.Function, args []Value) Value {
		return in.bitLen(term(args[0]))
	})

	// sort.Slice family: stable insertion sort driven by the real less closure
	sortSlice := func(in *Interp, caller *frame, pos token.Pos, fn *ssa.Function, args []Value) Value {
		x := args[0].(Iface)
		s, _ := x.V.(Slice)
		less := args[1]
		for i := 1; i < len(s); i++ {
			for j := i; j > 0; j-- {
				r := in.callValue(caller, pos, less, []Value{in.tb.BV(64, uint64(j)), in.tb.BV(64, uint64(j-1))})
				if !in.branch(term(r)) {
					break
				}
				a, b := copyVal(s[j]), copyVal(s[j-1])
				in.storeCell(&s[j], b)
				in.storeCell(&s[j-1], a)
			}
		}
		return nil
	}
	reg("sort.Slice", sortSlice)
	reg("sort.SliceStable", sortSlice)

	// fmt
	reg("fmt.Sprintf", func(in *Interp, caller *frame, pos token.Pos, fn *ssa.Function, args []Value) Value {
		return in.format(caller, args[0].(Str), args[1])
	})
	reg("fmt.Errorf", func(in *Interp, caller *frame, pos token.Pos, fn *ssa.Function, args []Value) Value {
		s := in.format(caller, args[0].(Str), args[1])
		return in.callPkgFunc(caller, "errors", "New", s)
	})
	reg("fmt.Sprint", func(in *Interp, caller *frame, pos token.Pos, fn *ssa.Function, args []Value) Value {
		return in.format(caller, Str{S: "%v"}, args[0])
	})
	reg("fmt.Sprintln", func(in *Interp, caller *frame, pos token.Pos, fn *ssa.Function, args []Value) Value {
		return in.format(caller, Str{S: "%v\n"}, args[0])
	})
	for _, n := range []string{"fmt.Printf", "fmt.Println", "fmt.Print", "fmt.Fprintf", "fmt.Fprintln", "fmt.Fprint"} {
		reg(n, func(in *Interp, caller *frame, pos token.Pos, fn *ssa.Function, args []Value) Value {
			return Tuple{in.tb.BV(64, 0), Iface{}}
		})
	}

	// time
	reg("time.Now", func(in *Interp, caller *frame, pos token.Pos, fn *ssa.Function, args []Value) Value {
		// an arbitrary non-decreasing instant: wall = 0 (no monotonic reading), ext = seconds since year 1
		t := in.zero(fn.Signature.Results().At(0).Type()).(Struct)
		if in.p == nil {
			t[1] = in.tb.BV(64, 63_000_000_000)
			return t
		}
		if in.cfg.Params["symbolic_time"] == 0 {
			// concrete, strictly increasing instants (1ms apart) unless the harness asks for symbolic time
			in.p.clock++
			t[1] = in.tb.BV(64, uint64(63_000_000_000+in.p.clock))
			t[0] = in.tb.BV(64, 0)
			return t
		}
		sec := in.nondet("time.Now", "i64", 64)
		lo := in.tb.BV(64, 62_000_000_000)
		if in.p.lastNow != nil {
			lo = in.p.lastNow
		}
		in.addPC(in.tb.Cmp(smt.OpSle, lo, sec))
		in.addPC(in.tb.Cmp(smt.OpSle, sec, in.tb.BV(64, 70_000_000_000)))
		in.p.lastNow = sec
		t[1] = sec
		return t
	})
}

type onceKey struct{ c *Value }

type poolKey struct{ c *Value }
type poolState struct{ items []Value }

type goWrap struct {
	f    Value
	done func()
}

func sliceTerms(v Value) []*smt.Term {
	s, _ := v.(Slice)
	r := make([]*smt.Term, len(s))
	for i, e := range s {
		r[i] = term(e)
	}
	return r
}

func (in *Interp) indexByte(bs []*smt.Term, c *smt.Term) *smt.Term {
	res := in.tb.BV(64, ^uint64(0))
	for i := len(bs) - 1; i >= 0; i-- {
		res = in.tb.Ite(in.tb.Eq(bs[i], c), in.tb.BV(64, uint64(i)), res)
	}
	return res
}

func (in *Interp) countByte(bs []*smt.Term, c *smt.Term) *smt.Term {
	res := in.tb.BV(64, 0)
	for _, b := range bs {
		res = in.tb.Add(res, in.tb.BoolToBV(in.tb.Eq(b, c), 64))
	}
	return res
}

func (in *Interp) trailingZeros(x *smt.Term) *smt.Term {
	res := in.tb.BV(64, uint64(x.W))
	for i := x.W - 1; i >= 0; i-- {
		bit := in.tb.Eq(in.tb.Extract(x, i, i), in.tb.BV(1, 1))
		res = in.tb.Ite(bit, in.tb.BV(64, uint64(i)), res)
	}
	return res
}

func (in *Interp) bitLen(x *smt.Term) *smt.Term {
	res := in.tb.BV(64, 0)
	for i := 0; i < x.W; i++ {
		bit := in.tb.Eq(in.tb.Extract(x, i, i), in.tb.BV(1, 1))
		res = in.tb.Ite(bit, in.tb.BV(64, uint64(i+1)), res)
	}
	return res
}

// interceptByPattern handles body-less functions by name pattern (sync/atomic etc).
func (in *Interp) interceptByPattern(caller *frame, pos token.Pos, fn *ssa.Function, key string, args []Value) (Value, bool) {
	if strings.HasPrefix(key, "sync/atomic.") || strings.HasPrefix(key, "internal/runtime/atomic.") {
		name := key[strings.LastIndex(key, ".")+1:]
		switch {
		case strings.HasPrefix(name, "Load"):
			return in.load(pos, args[0]), true
		case strings.HasPrefix(name, "Store"):
			in.store(pos, nil, args[0], args[1])
			return nil, true
		case strings.HasPrefix(name, "Add"):
			old := term(in.load(pos, args[0]))
			nv := in.tb.Add(old, term(args[1]))
			in.store(pos, nil, args[0], nv)
			return nv, true
		case strings.HasPrefix(name, "And"):
			old := term(in.load(pos, args[0]))
			in.store(pos, nil, args[0], in.tb.Bin(smt.OpBAnd, old, term(args[1])))
			return old, true
		case strings.HasPrefix(name, "Or"):
			old := term(in.load(pos, args[0]))
			in.store(pos, nil, args[0], in.tb.Bin(smt.OpBOr, old, term(args[1])))
			return old, true
		case strings.HasPrefix(name, "Swap"):
			old := in.load(pos, args[0])
			in.store(pos, nil, args[0], args[1])
			return old, true
		case strings.HasPrefix(name, "CompareAndSwap"):
			old := in.load(pos, args[0])
			eq := in.equal(nil, old, args[1])
			if in.branch(eq) {
				in.store(pos, nil, args[0], args[2])
				return in.tb.True, true
			}
			return in.tb.False, true
		}
	}
	return nil, false
}

// ---------- formatting ----------

// toNative converts a concrete interpreted value into a Go value for fmt.
func (in *Interp) toNative(caller *frame, v Value, t types.Type) (any, bool) {
	switch x := v.(type) {
	case *smt.Term:
		if !x.IsConst() {
			return nil, false
		}
		if t == nil {
			return x.C, true
		}
		w, signed, isF, ok := scalarWidth(t)
		if !ok {
			return nil, false
		}
		switch {
		case w == 0:
			return x.C == 1, true
		case isF && w == 64:
			return math.Float64frombits(x.C), true
		case isF:
			return math.Float32frombits(uint32(x.C)), true
		case signed:
			switch w {
			case 8:
				return int8(x.SignedVal()), true
			case 16:
				return int16(x.SignedVal()), true
			case 32:
				return int32(x.SignedVal()), true
			}
			if b, ok := t.Underlying().(*types.Basic); ok && b.Kind() == types.Int {
				return int(x.SignedVal()), true
			}
			return x.SignedVal(), true
		default:
			switch w {
			case 8:
				return uint8(x.C), true
			case 16:
				return uint16(x.C), true
			case 32:
				return uint32(x.C), true
			}
			if b, ok := t.Underlying().(*types.Basic); ok && b.Kind() == types.Uint {
				return uint(x.C), true
			}
			return x.C, true
		}
	case Str:
		if x.Opaque || !x.IsConcrete() {
			return nil, false
		}
		return x.Concrete(), true
	case Iface:
		if x.T == nil {
			return nil, true
		}
		// error / Stringer
		for _, m := range []string{"Error", "String"} {
			if f := in.findMethod(x.T, m); f != nil && f.Signature.Params().Len() == 0 && f.Signature.Results().Len() == 1 && isString(f.Signature.Results().At(0).Type()) {
				r := in.callFunction(caller, token.NoPos, f, []Value{x.V}, nil)
				if s, ok := r.(Str); ok && s.IsConcrete() && !s.Opaque {
					return fmtString(s.Concrete()), true
				}
				return nil, false
			}
		}
		return in.toNative(caller, x.V, x.T)
	case Slice:
		if t != nil {
			if st, ok := t.Underlying().(*types.Slice); ok {
				if b, ok := st.Elem().Underlying().(*types.Basic); ok && b.Kind() == types.Uint8 {
					bs := make([]byte, len(x))
					for i, e := range x {
						et := term(e)
						if !et.IsConst() {
							return nil, false
						}
						bs[i] = byte(et.C)
					}
					return bs, true
				}
			}
		}
	}
	return nil, false
}

type fmtString string

func (s fmtString) String() string { return string(s) }

func (in *Interp) format(caller *frame, f Str, argv Value) Str {
	args, _ := argv.(Slice)
	if !f.IsConcrete() {
		return Str{S: "<fmt>", Opaque: true}
	}
	nat := make([]any, len(args))
	for i, a := range args {
		v, ok := in.toNative(caller, a, nil)
		if !ok {
			return Str{S: "<fmt:" + f.Concrete() + ">", Opaque: true}
		}
		nat[i] = v
	}
	return Str{S: fmt.Sprintf(f.Concrete(), nat...)}
}
