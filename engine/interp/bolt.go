package interp

import (
	"go/token"
	"go/types"

	"golang.org/x/tools/go/ssa"

	"symgo/smt"
)

// Model of go.etcd.io/bbolt for symbolic runs: an idealised store of nested, byte-ordered buckets
// with serialisable transactions (a write transaction works on a private copy that replaces the
// database root at Commit; read transactions see the root as of Begin). What is durable is exactly
// what has been committed; bbolt's own crash consistency, pages, mmap and fsync are outside.
// Native replays open real bbolt files. Handles (*DB, *Tx, *Bucket, *Cursor) are ordinary zero
// structs of the real types (so plain field writes such as FillPercent work); the model state
// hangs off the handle's cell in a per-path side table.

const boltPkg = "go.etcd.io/bbolt"

type boltEntry struct {
	key []*smt.Term
	val []*smt.Term // nil for a nested bucket
	opaque Slice      // a value that is not plain bytes (the json model's abstract text), kept as it is
	sub *boltNode
}

type boltNode struct {
	entries []*boltEntry // sorted by key
}

type boltDB struct {
	path     string
	file     *boltFile
	closed   bool
	readOnly bool
}

// boltFile is the durable content, shared by successive Opens of the same path within one path.
type boltFile struct {
	root    *boltNode
	writer  bool
	commits int
}

type boltTx struct {
	db       *boltDB
	writable bool
	root     *boltNode
	done     bool
}

type boltBucket struct {
	tx   *boltTx
	node *boltNode
}

type boltCursor struct {
	b   *boltBucket
	idx int
}

func (n *boltNode) clone() *boltNode {
	c := &boltNode{entries: make([]*boltEntry, len(n.entries))}
	for i, e := range n.entries {
		ne := &boltEntry{key: e.key, val: e.val, opaque: e.opaque}
		if e.sub != nil {
			ne.sub = e.sub.clone()
		}
		c.entries[i] = ne
	}
	return c
}

func (in *Interp) boltHandle(typeName string, state any) Value {
	pkg := in.prog.ImportedPackage(boltPkg)
	if pkg == nil {
		unsupported("bbolt package not loaded")
	}
	t := pkg.Type(typeName)
	if t == nil {
		unsupported("bbolt type %s not found", typeName)
	}
	c := new(Value)
	*c = in.zero(t.Type())
	in.p.sync[c] = state
	return Ptr{c}
}

func (in *Interp) boltState(pos token.Pos, v Value, what string) any {
	p, ok := v.(Ptr)
	if !ok {
		unsupported("bbolt %s receiver %T", what, v)
	}
	if p.C == nil {
		in.rtPanic(pos, "invalid memory address or nil pointer dereference (nil bbolt "+what+")")
	}
	st, ok := in.p.sync[p.C]
	if !ok {
		unsupported("bbolt %s handle not created by the model", what)
	}
	return st
}

func (in *Interp) boltErr(name string) Value {
	pkg := in.prog.ImportedPackage(boltPkg)
	g, ok := pkg.Members[name].(*ssa.Global)
	if !ok {
		unsupported("bbolt error %s not found", name)
	}
	return in.load(token.NoPos, in.global(g))
}

// entryVal returns the stored value of a key/value entry as a byte slice value.
func (in *Interp) entryVal(e *boltEntry) Value {
	if e.opaque != nil {
		return Slice{e.opaque[0]}
	}
	v := e.val
	if v == nil {
		v = []*smt.Term{}
	}
	return in.bytesVal(v)
}

func termsOf(v Value) []*smt.Term {
	s, _ := v.(Slice)
	out := make([]*smt.Term, len(s))
	for i, e := range s {
		out[i] = term(e)
	}
	return out
}

func (in *Interp) bytesVal(ts []*smt.Term) Value {
	if ts == nil {
		return Slice(nil)
	}
	s := make(Slice, len(ts))
	for i, t := range ts {
		s[i] = t
	}
	return s
}

// boltCmp decides (forking when the keys are symbolic) the order of two keys: -1, 0, 1.
func (in *Interp) boltCmp(a, b []*smt.Term) int {
	c := in.bytesCompare(a, b)
	if c.IsConst() {
		return int(c.SignedVal())
	}
	if in.branch(in.tb.Eq(c, in.tb.BV(64, 0))) {
		return 0
	}
	if in.branch(in.tb.Cmp(smt.OpSlt, c, in.tb.BV(64, 0))) {
		return -1
	}
	return 1
}

// find returns the index of key in n and whether it is present; absent keys give the insertion point.
func (in *Interp) boltFind(n *boltNode, key []*smt.Term) (int, bool) {
	for i, e := range n.entries {
		switch in.boltCmp(e.key, key) {
		case 0:
			return i, true
		case 1:
			return i, false
		}
	}
	return len(n.entries), false
}

func init() {
	F := func(name string, f Intercept) { reg(boltPkg+"."+name, f) }
	D := func(name string, f Intercept) { reg("(*"+boltPkg+".DB)."+name, f) }
	T := func(name string, f Intercept) { reg("(*"+boltPkg+".Tx)."+name, f) }
	B := func(name string, f Intercept) { reg("(*"+boltPkg+".Bucket)."+name, f) }
	C := func(name string, f Intercept) { reg("(*"+boltPkg+".Cursor)."+name, f) }
	nilErr := Iface{}

	F("Open", func(in *Interp, caller *frame, pos token.Pos, fn *ssa.Function, args []Value) Value {
		in.noteUsed("bbolt model (ordered nested buckets, serialisable transactions)")
		path := in.concreteStr(args[0], "bbolt path")
		key := "boltfile:" + path
		var file *boltFile
		if f, ok := in.p.sync[key]; ok {
			file = f.(*boltFile)
		} else {
			file = &boltFile{root: &boltNode{}}
			in.p.sync[key] = file
		}
		db := &boltDB{path: path, file: file}
		if op, ok := args[2].(Ptr); ok && op.C != nil {
			// Options.ReadOnly
			if st, ok := (*op.C).(Struct); ok {
				optT := fn.Signature.Params().At(2).Type().(*types.Pointer).Elem().Underlying().(*types.Struct)
				for i := 0; i < optT.NumFields(); i++ {
					if optT.Field(i).Name() == "ReadOnly" {
						if t, ok := st[i].(*smt.Term); ok && t.IsTrue() {
							db.readOnly = true
						}
					}
				}
			}
		}
		return Tuple{in.boltHandle("DB", db), nilErr}
	})
	begin := func(in *Interp, pos token.Pos, db *boltDB, writable bool) *boltTx {
		if db.closed {
			panic(in.goPanicStr(pos, "bbolt: database not open"))
		}
		tx := &boltTx{db: db, writable: writable}
		if writable {
			in.block(func() bool { return !db.file.writer })
			db.file.writer = true
			tx.root = db.file.root.clone()
		} else {
			tx.root = db.file.root
		}
		return tx
	}
	commit := func(in *Interp, tx *boltTx) {
		if tx.done {
			return
		}
		tx.done = true
		if tx.writable {
			tx.db.file.root = tx.root
			tx.db.file.commits++
			tx.db.file.writer = false
		}
	}
	rollback := func(in *Interp, tx *boltTx) {
		if tx.done {
			return
		}
		tx.done = true
		if tx.writable {
			tx.db.file.writer = false
		}
	}
	D("Begin", func(in *Interp, caller *frame, pos token.Pos, fn *ssa.Function, args []Value) Value {
		db := in.boltState(pos, args[0], "DB").(*boltDB)
		w := term(args[1])
		if !w.IsConst() {
			unsupported("bbolt Begin with symbolic writable flag")
		}
		if w.C == 1 && db.readOnly {
			return Tuple{Ptr{}, in.boltErr("ErrDatabaseReadOnly")}
		}
		tx := begin(in, pos, db, w.C == 1)
		return Tuple{in.boltHandle("Tx", tx), nilErr}
	})
	runTx := func(writable bool) Intercept {
		return func(in *Interp, caller *frame, pos token.Pos, fn *ssa.Function, args []Value) Value {
			db := in.boltState(pos, args[0], "DB").(*boltDB)
			if writable && db.readOnly {
				return in.boltErr("ErrDatabaseReadOnly")
			}
			tx := begin(in, pos, db, writable)
			h := in.boltHandle("Tx", tx)
			res := in.callValue(caller, pos, args[1], []Value{h})
			if e, ok := res.(Iface); ok && e.T != nil {
				rollback(in, tx)
				return res
			}
			if writable {
				commit(in, tx)
			} else {
				rollback(in, tx)
			}
			return nilErr
		}
	}
	D("View", runTx(false))
	D("Update", runTx(true))
	D("Sync", func(in *Interp, caller *frame, pos token.Pos, fn *ssa.Function, args []Value) Value {
		in.boltState(pos, args[0], "DB")
		return nilErr
	})
	D("Close", func(in *Interp, caller *frame, pos token.Pos, fn *ssa.Function, args []Value) Value {
		db := in.boltState(pos, args[0], "DB").(*boltDB)
		db.closed = true
		return nilErr
	})
	D("Path", func(in *Interp, caller *frame, pos token.Pos, fn *ssa.Function, args []Value) Value {
		return Str{S: in.boltState(pos, args[0], "DB").(*boltDB).path}
	})
	D("IsReadOnly", func(in *Interp, caller *frame, pos token.Pos, fn *ssa.Function, args []Value) Value {
		return in.tb.Bool(in.boltState(pos, args[0], "DB").(*boltDB).readOnly)
	})
	T("Commit", func(in *Interp, caller *frame, pos token.Pos, fn *ssa.Function, args []Value) Value {
		tx := in.boltState(pos, args[0], "Tx").(*boltTx)
		if tx.done {
			return in.boltErr("ErrTxClosed")
		}
		if !tx.writable {
			return in.boltErr("ErrTxNotWritable")
		}
		commit(in, tx)
		return nilErr
	})
	T("Rollback", func(in *Interp, caller *frame, pos token.Pos, fn *ssa.Function, args []Value) Value {
		tx := in.boltState(pos, args[0], "Tx").(*boltTx)
		if tx.done {
			return in.boltErr("ErrTxClosed")
		}
		rollback(in, tx)
		return nilErr
	})
	T("Writable", func(in *Interp, caller *frame, pos token.Pos, fn *ssa.Function, args []Value) Value {
		return in.tb.Bool(in.boltState(pos, args[0], "Tx").(*boltTx).writable)
	})
	// bucket operations shared by Tx (root) and Bucket
	nodeOf := func(in *Interp, pos token.Pos, v Value, isTx bool) (*boltTx, *boltNode) {
		if isTx {
			tx := in.boltState(pos, v, "Tx").(*boltTx)
			return tx, tx.root
		}
		b := in.boltState(pos, v, "Bucket").(*boltBucket)
		return b.tx, b.node
	}
	getBucket := func(isTx bool) Intercept {
		return func(in *Interp, caller *frame, pos token.Pos, fn *ssa.Function, args []Value) Value {
			tx, n := nodeOf(in, pos, args[0], isTx)
			i, ok := in.boltFind(n, termsOf(args[1]))
			if !ok || n.entries[i].sub == nil {
				return Ptr{}
			}
			return in.boltHandle("Bucket", &boltBucket{tx: tx, node: n.entries[i].sub})
		}
	}
	createBucket := func(isTx, mustNotExist bool) Intercept {
		return func(in *Interp, caller *frame, pos token.Pos, fn *ssa.Function, args []Value) Value {
			tx, n := nodeOf(in, pos, args[0], isTx)
			if !tx.writable {
				return Tuple{Ptr{}, in.boltErr("ErrTxNotWritable")}
			}
			key := termsOf(args[1])
			if len(key) == 0 {
				return Tuple{Ptr{}, in.boltErr("ErrBucketNameRequired")}
			}
			i, ok := in.boltFind(n, key)
			if ok {
				if n.entries[i].sub == nil {
					return Tuple{Ptr{}, in.boltErr("ErrIncompatibleValue")}
				}
				if mustNotExist {
					return Tuple{Ptr{}, in.boltErr("ErrBucketExists")}
				}
				return Tuple{in.boltHandle("Bucket", &boltBucket{tx: tx, node: n.entries[i].sub}), nilErr}
			}
			e := &boltEntry{key: append([]*smt.Term{}, key...), sub: &boltNode{}}
			n.entries = append(n.entries[:i], append([]*boltEntry{e}, n.entries[i:]...)...)
			return Tuple{in.boltHandle("Bucket", &boltBucket{tx: tx, node: e.sub}), nilErr}
		}
	}
	deleteBucket := func(isTx bool) Intercept {
		return func(in *Interp, caller *frame, pos token.Pos, fn *ssa.Function, args []Value) Value {
			tx, n := nodeOf(in, pos, args[0], isTx)
			if !tx.writable {
				return in.boltErr("ErrTxNotWritable")
			}
			i, ok := in.boltFind(n, termsOf(args[1]))
			if !ok {
				return in.boltErr("ErrBucketNotFound")
			}
			if n.entries[i].sub == nil {
				return in.boltErr("ErrIncompatibleValue")
			}
			n.entries = append(append([]*boltEntry{}, n.entries[:i]...), n.entries[i+1:]...)
			return nilErr
		}
	}
	T("Bucket", getBucket(true))
	B("Bucket", getBucket(false))
	T("CreateBucketIfNotExists", createBucket(true, false))
	B("CreateBucketIfNotExists", createBucket(false, false))
	T("CreateBucket", createBucket(true, true))
	B("CreateBucket", createBucket(false, true))
	T("DeleteBucket", deleteBucket(true))
	B("DeleteBucket", deleteBucket(false))
	B("Get", func(in *Interp, caller *frame, pos token.Pos, fn *ssa.Function, args []Value) Value {
		_, n := nodeOf(in, pos, args[0], false)
		i, ok := in.boltFind(n, termsOf(args[1]))
		if !ok || n.entries[i].sub != nil {
			return Slice(nil)
		}
		return in.entryVal(n.entries[i])
	})
	B("Put", func(in *Interp, caller *frame, pos token.Pos, fn *ssa.Function, args []Value) Value {
		tx, n := nodeOf(in, pos, args[0], false)
		if !tx.writable {
			return in.boltErr("ErrTxNotWritable")
		}
		key := termsOf(args[1])
		if len(key) == 0 {
			return in.boltErr("ErrKeyRequired")
		}
		var val []*smt.Term
		var opaque Slice
		if vs, _ := args[2].(Slice); len(vs) == 1 {
			if _, isTok := vs[0].(JSONTok); isTok {
				// the abstract JSON text of the json model: stored and returned as it is
				opaque = Slice{vs[0]}
			}
		}
		if opaque == nil {
			val = append([]*smt.Term{}, termsOf(args[2])...)
		}
		i, ok := in.boltFind(n, key)
		if ok {
			if n.entries[i].sub != nil {
				return in.boltErr("ErrIncompatibleValue")
			}
			n.entries[i] = &boltEntry{key: n.entries[i].key, val: val, opaque: opaque}
			return nilErr
		}
		e := &boltEntry{key: append([]*smt.Term{}, key...), val: val, opaque: opaque}
		n.entries = append(n.entries[:i], append([]*boltEntry{e}, n.entries[i:]...)...)
		return nilErr
	})
	B("Delete", func(in *Interp, caller *frame, pos token.Pos, fn *ssa.Function, args []Value) Value {
		tx, n := nodeOf(in, pos, args[0], false)
		if !tx.writable {
			return in.boltErr("ErrTxNotWritable")
		}
		i, ok := in.boltFind(n, termsOf(args[1]))
		if !ok {
			return nilErr
		}
		if n.entries[i].sub != nil {
			return in.boltErr("ErrIncompatibleValue")
		}
		n.entries = append(append([]*boltEntry{}, n.entries[:i]...), n.entries[i+1:]...)
		return nilErr
	})
	B("ForEach", func(in *Interp, caller *frame, pos token.Pos, fn *ssa.Function, args []Value) Value {
		_, n := nodeOf(in, pos, args[0], false)
		for _, e := range append([]*boltEntry{}, n.entries...) {
			var v Value = Slice(nil)
			if e.sub == nil {
				v = in.entryVal(e)
			}
			res := in.callValue(caller, pos, args[1], []Value{in.bytesVal(e.key), v})
			if er, ok := res.(Iface); ok && er.T != nil {
				return res
			}
		}
		return nilErr
	})
	B("Writable", func(in *Interp, caller *frame, pos token.Pos, fn *ssa.Function, args []Value) Value {
		tx, _ := nodeOf(in, pos, args[0], false)
		return in.tb.Bool(tx.writable)
	})
	cursor := func(isTx bool) Intercept {
		return func(in *Interp, caller *frame, pos token.Pos, fn *ssa.Function, args []Value) Value {
			tx, n := nodeOf(in, pos, args[0], isTx)
			return in.boltHandle("Cursor", &boltCursor{b: &boltBucket{tx: tx, node: n}, idx: -1})
		}
	}
	B("Cursor", cursor(false))
	T("Cursor", cursor(true))
	kv := func(in *Interp, c *boltCursor) Value {
		n := c.b.node
		if c.idx < 0 || c.idx >= len(n.entries) {
			return Tuple{Slice(nil), Slice(nil)}
		}
		e := n.entries[c.idx]
		if e.sub != nil {
			return Tuple{in.bytesVal(e.key), Slice(nil)}
		}
		return Tuple{in.bytesVal(e.key), in.entryVal(e)}
	}
	C("First", func(in *Interp, caller *frame, pos token.Pos, fn *ssa.Function, args []Value) Value {
		c := in.boltState(pos, args[0], "Cursor").(*boltCursor)
		c.idx = 0
		return kv(in, c)
	})
	C("Last", func(in *Interp, caller *frame, pos token.Pos, fn *ssa.Function, args []Value) Value {
		c := in.boltState(pos, args[0], "Cursor").(*boltCursor)
		c.idx = len(c.b.node.entries) - 1
		return kv(in, c)
	})
	C("Next", func(in *Interp, caller *frame, pos token.Pos, fn *ssa.Function, args []Value) Value {
		c := in.boltState(pos, args[0], "Cursor").(*boltCursor)
		if c.idx < len(c.b.node.entries) {
			c.idx++
		}
		return kv(in, c)
	})
	C("Prev", func(in *Interp, caller *frame, pos token.Pos, fn *ssa.Function, args []Value) Value {
		c := in.boltState(pos, args[0], "Cursor").(*boltCursor)
		if c.idx >= 0 {
			c.idx--
		}
		return kv(in, c)
	})
	C("Seek", func(in *Interp, caller *frame, pos token.Pos, fn *ssa.Function, args []Value) Value {
		c := in.boltState(pos, args[0], "Cursor").(*boltCursor)
		i, _ := in.boltFind(c.b.node, termsOf(args[1]))
		c.idx = i
		return kv(in, c)
	})
}
