package interp

import (
	"bytes"
	stdjson "encoding/json"
	"fmt"
	"go/token"
	"go/types"
	"math"
	"reflect"
	"sort"
	"strings"

	"golang.org/x/tools/go/ssa"

	"symgo/smt"
)

// Abstract model of encoding/json (Marshal / Unmarshal) for symbolic runs. JSON text is not
// produced: a marshalled value is a tree (jval) carried inside a one-element byte slice (JSONTok),
// built and consumed type-directed from go/types (struct tags, omitempty, embedded fields, pointers,
// maps, slices, interfaces, json.RawMessage) and calling user MarshalJSON/UnmarshalJSON methods
// symbolically. Scalars inside the tree may be symbolic; an omitempty field with a symbolic value is
// a conditionally present member. Concrete JSON text (a literal in the code) is parsed natively into
// the same trees. Native replays use the real encoding/json.

type jkind int

const (
	jNull jkind = iota
	jBool
	jNum
	jStr
	jArr
	jObj
)

type jval struct {
	k       jkind
	b       *smt.Term
	num     *smt.Term // integer (width w) or float64 carrier
	isFloat bool
	signed  bool
	s       Str
	arr     []*jval
	obj     []jmember
}

type jmember struct {
	key     string
	val     *jval
	present *smt.Term
}

// JSONTok is the single element of a byte slice that stands for the JSON text of V.
type JSONTok struct{ V *jval }

func jsonTokSlice(v *jval) Slice { return Slice{JSONTok{v}} }

func asJSONTok(v Value) (*jval, bool) {
	s, ok := v.(Slice)
	if !ok || len(s) != 1 {
		return nil, false
	}
	t, ok := s[0].(JSONTok)
	if !ok {
		return nil, false
	}
	return t.V, true
}

// jsonFirstByte: the first byte of the JSON text a tree stands for (no leading white space, as
// Marshal and RawMessage decoding produce it): determined by the kind, for numbers by the sign
// (the leading digit of a non-negative number is an unconstrained digit).
func (in *Interp) jsonFirstByte(v *jval) *smt.Term {
	tb := in.tb
	in.noteUsed("first byte of abstract JSON text")
	if v == nil {
		return tb.BV(8, 'n')
	}
	switch v.k {
	case jNull:
		return tb.BV(8, 'n')
	case jBool:
		return tb.Ite(v.b, tb.BV(8, 't'), tb.BV(8, 'f'))
	case jStr:
		return tb.BV(8, '"')
	case jArr:
		return tb.BV(8, '[')
	case jObj:
		return tb.BV(8, '{')
	}
	// number
	var neg *smt.Term
	switch {
	case v.isFloat:
		// sign bit set and not a zero of either sign printed without sign... json prints -0 as "-0"
		neg = tb.Eq(tb.Extract(v.num, v.num.W-1, v.num.W-1), tb.BV(1, 1))
	case v.signed:
		neg = tb.Cmp(smt.OpSlt, v.num, tb.BV(v.num.W, 0))
	default:
		neg = tb.False
	}
	var digit *smt.Term
	if in.p != nil {
		digit = in.nondet("json.leading_digit", "u8", 8)
		in.addPC(tb.And(tb.Cmp(smt.OpUle, tb.BV(8, '0'), digit), tb.Cmp(smt.OpUle, digit, tb.BV(8, '9'))))
	} else {
		digit = tb.BV(8, '1')
	}
	return tb.Ite(neg, tb.BV(8, '-'), digit)
}

type jsonTag struct {
	name      string
	omitempty bool
	skip      bool
	asString  bool
}

func parseJSONTag(f *types.Var, tag string) jsonTag {
	jt := jsonTag{name: f.Name()}
	st := reflect.StructTag(tag)
	v, ok := st.Lookup("json")
	if !ok {
		return jt
	}
	if v == "-" {
		jt.skip = true
		return jt
	}
	parts := strings.Split(v, ",")
	if parts[0] != "" {
		jt.name = parts[0]
	}
	for _, o := range parts[1:] {
		switch o {
		case "omitempty":
			jt.omitempty = true
		case "string":
			jt.asString = true
		}
	}
	return jt
}

func (in *Interp) jsonErr(caller *frame, format string, args ...any) Value {
	return in.callPkgFunc(caller, "errors", "New", Str{S: "json: " + fmt.Sprintf(format, args...)})
}

func (in *Interp) hasMethod(t types.Type, name string) *ssa.Function {
	sel := in.prog.MethodSets.MethodSet(t).Lookup(nil, name)
	if sel == nil {
		return nil
	}
	return in.prog.MethodValue(sel)
}

// ---------- encoding ----------

type jsonEncErr struct{ err Value }

// emptyCond: the condition under which a value counts as empty for omitempty.
func (in *Interp) emptyCond(t types.Type, v Value) *smt.Term {
	tb := in.tb
	switch u := t.Underlying().(type) {
	case *types.Basic:
		if u.Info()&types.IsString != 0 {
			return tb.Bool(v.(Str).Len() == 0)
		}
		x := term(v)
		if x.W == 0 {
			return tb.Not(x)
		}
		if u.Info()&types.IsFloat != 0 {
			return tb.FCmp(smt.OpFEq, x, tb.BV(x.W, 0))
		}
		return tb.Eq(x, tb.BV(x.W, 0))
	case *types.Pointer:
		return tb.Bool(v.(Ptr).C == nil)
	case *types.Interface:
		return tb.Bool(v.(Iface).T == nil)
	case *types.Slice:
		return tb.Bool(len(v.(Slice)) == 0)
	case *types.Map:
		m := v.(*Map)
		return tb.Bool(m == nil || len(m.Entries) == 0)
	case *types.Array:
		return tb.Bool(u.Len() == 0)
	}
	return tb.False
}

func (in *Interp) jsonEncode(caller *frame, t types.Type, v Value) *jval {
	tb := in.tb
	if p, isP := v.(Poison); isP {
		unsupported("json: poisoned value: %s", p.Why)
	}
	// nil pointers and interfaces encode as null before any method is consulted
	if _, ok := t.Underlying().(*types.Pointer); ok {
		if v.(Ptr).C == nil {
			return &jval{k: jNull}
		}
	}
	if _, ok := t.Underlying().(*types.Interface); ok {
		i := v.(Iface)
		if i.T == nil {
			return &jval{k: jNull}
		}
		return in.jsonEncode(caller, i.T, i.V)
	}
	// json.Marshaler
	if f := in.hasMethod(t, "MarshalJSON"); f != nil {
		recv := v
		return in.jsonCallMarshaler(caller, f, recv)
	}
	if _, isPtr := t.Underlying().(*types.Pointer); !isPtr {
		if f := in.hasMethod(types.NewPointer(t), "MarshalJSON"); f != nil {
			c := new(Value)
			*c = copyVal(v)
			return in.jsonCallMarshaler(caller, f, Ptr{c})
		}
	}
	switch u := t.Underlying().(type) {
	case *types.Basic:
		switch {
		case u.Info()&types.IsBoolean != 0:
			return &jval{k: jBool, b: term(v)}
		case u.Info()&types.IsString != 0:
			return &jval{k: jStr, s: v.(Str)}
		case u.Info()&types.IsFloat != 0:
			x := term(v)
			if x.W == 32 {
				x = tb.FToF(x, 64)
			}
			return &jval{k: jNum, num: x, isFloat: true}
		case u.Info()&types.IsInteger != 0:
			_, signed, _, _ := scalarWidth(t)
			return &jval{k: jNum, num: term(v), signed: signed}
		}
	case *types.Pointer:
		return in.jsonEncode(caller, u.Elem(), in.load(token.NoPos, v))
	case *types.Struct:
		st := v.(Struct)
		jv := &jval{k: jObj}
		in.jsonEncodeFields(caller, u, st, jv)
		return jv
	case *types.Map:
		m := v.(*Map)
		if m == nil {
			return &jval{k: jNull}
		}
		if !isString(u.Key()) {
			unsupported("json: map with key type %s", u.Key())
		}
		type kv struct {
			k string
			v Value
		}
		var kvs []kv
		for _, e := range m.Entries {
			ks := e.K.(Str)
			if !ks.IsConcrete() {
				unsupported("json: map with symbolic key")
			}
			kvs = append(kvs, kv{ks.Concrete(), e.V})
		}
		sort.Slice(kvs, func(i, j int) bool { return kvs[i].k < kvs[j].k })
		jv := &jval{k: jObj}
		for _, e := range kvs {
			jv.obj = append(jv.obj, jmember{key: e.k, val: in.jsonEncode(caller, u.Elem(), e.v), present: tb.True})
		}
		return jv
	case *types.Slice:
		s := v.(Slice)
		if s == nil {
			return &jval{k: jNull}
		}
		if tv, ok := asJSONTok(s); ok {
			return tv // a []byte that is JSON text (RawMessage handled by its method; defensive)
		}
		if b, ok := u.Elem().Underlying().(*types.Basic); ok && b.Kind() == types.Uint8 {
			unsupported("json: []byte values (base64) are not modelled")
		}
		jv := &jval{k: jArr, arr: []*jval{}}
		for _, e := range s {
			jv.arr = append(jv.arr, in.jsonEncode(caller, u.Elem(), e))
		}
		return jv
	case *types.Array:
		a := v.(Array)
		jv := &jval{k: jArr, arr: []*jval{}}
		for _, e := range a {
			jv.arr = append(jv.arr, in.jsonEncode(caller, u.Elem(), e))
		}
		return jv
	}
	unsupported("json: encoding of %s", t)
	return nil
}

func (in *Interp) jsonCallMarshaler(caller *frame, f *ssa.Function, recv Value) *jval {
	res := in.callFunction(caller, token.NoPos, f, []Value{recv}, nil).(Tuple)
	if e, ok := res[1].(Iface); ok && e.T != nil {
		panic(jsonEncErr{res[1]})
	}
	jv, err := in.jsonFromBytes(res[0])
	if err != "" {
		unsupported("json: MarshalJSON of %s returned bytes that cannot be read: %s", f, err)
	}
	return jv
}

func (in *Interp) jsonEncodeFields(caller *frame, u *types.Struct, st Struct, jv *jval) {
	// names defined directly at this depth shadow the same names of embedded structs
	direct := map[string]bool{}
	for i := 0; i < u.NumFields(); i++ {
		f := u.Field(i)
		tag := parseJSONTag(f, u.Tag(i))
		if tag.skip || !f.Exported() {
			continue
		}
		if f.Anonymous() && reflect.StructTag(u.Tag(i)).Get("json") == "" {
			continue
		}
		direct[tag.name] = true
	}
	before := len(jv.obj)
	defer func() {
		// drop members contributed by embedded structs that are shadowed at this depth
		out := jv.obj[:before]
		seen := map[string]bool{}
		for _, m := range jv.obj[before:] {
			if seen[m.key] {
				continue
			}
			seen[m.key] = true
			out = append(out, m)
		}
		jv.obj = out
	}()
	// direct fields first so that they win over embedded ones with the same name
	order := make([]int, 0, u.NumFields())
	for pass := 0; pass < 2; pass++ {
		for i := 0; i < u.NumFields(); i++ {
			f := u.Field(i)
			emb := f.Anonymous() && reflect.StructTag(u.Tag(i)).Get("json") == ""
			if (pass == 0) != emb {
				order = append(order, i)
			}
		}
	}
	_ = direct
	for _, i := range order {
		f := u.Field(i)
		tag := parseJSONTag(f, u.Tag(i))
		if tag.skip {
			continue
		}
		if f.Anonymous() {
			// embedded struct (or pointer to struct) without a name tag: flatten
			ft := f.Type()
			fv := st[i]
			if pt, ok := ft.Underlying().(*types.Pointer); ok {
				if fv.(Ptr).C == nil {
					continue
				}
				ft = pt.Elem()
				fv = in.load(token.NoPos, fv)
			}
			if es, ok := ft.Underlying().(*types.Struct); ok && reflect.StructTag(u.Tag(i)).Get("json") == "" {
				in.jsonEncodeFields(caller, es, fv.(Struct), jv)
				continue
			}
		}
		if !f.Exported() {
			continue
		}
		if tag.asString {
			unsupported("json: ,string option")
		}
		present := in.tb.True
		if tag.omitempty {
			present = in.tb.Not(in.emptyCond(f.Type(), st[i]))
			if present.IsFalse() {
				continue
			}
		}
		jv.obj = append(jv.obj, jmember{key: tag.name, val: in.jsonEncode(caller, f.Type(), st[i]), present: present})
	}
}

// jsonFromBytes reads a []byte value: a token slice, or concrete JSON text.
func (in *Interp) jsonFromBytes(v Value) (*jval, string) {
	if jv, ok := asJSONTok(v); ok {
		return jv, ""
	}
	s, ok := v.(Slice)
	if !ok {
		return nil, fmt.Sprintf("%T is not a byte slice", v)
	}
	raw := make([]byte, len(s))
	for i, e := range s {
		t, ok := e.(*smt.Term)
		if !ok || !t.IsConst() {
			return nil, "symbolic JSON text"
		}
		raw[i] = byte(t.C)
	}
	return in.jsonParseConcrete(raw)
}

func (in *Interp) jsonParseConcrete(raw []byte) (*jval, string) {
	dec := stdjson.NewDecoder(bytes.NewReader(raw))
	dec.UseNumber()
	var x any
	if err := dec.Decode(&x); err != nil {
		return nil, "syntax: " + err.Error()
	}
	if dec.More() {
		return nil, "syntax: trailing data"
	}
	return in.jsonFromNative(x, raw), ""
}

func (in *Interp) jsonFromNative(x any, raw []byte) *jval {
	tb := in.tb
	switch x := x.(type) {
	case nil:
		return &jval{k: jNull}
	case bool:
		return &jval{k: jBool, b: tb.Bool(x)}
	case string:
		return &jval{k: jStr, s: Str{S: x}}
	case stdjson.Number:
		if i, err := x.Int64(); err == nil {
			return &jval{k: jNum, num: tb.BV(64, uint64(i)), signed: true}
		}
		f, _ := x.Float64()
		return &jval{k: jNum, num: tb.BV(64, math.Float64bits(f)), isFloat: true}
	case []any:
		jv := &jval{k: jArr, arr: []*jval{}}
		for _, e := range x {
			jv.arr = append(jv.arr, in.jsonFromNative(e, nil))
		}
		return jv
	case map[string]any:
		// keep source order of keys
		jv := &jval{k: jObj}
		keys := make([]string, 0, len(x))
		for k := range x {
			keys = append(keys, k)
		}
		sort.Strings(keys)
		for _, k := range keys {
			jv.obj = append(jv.obj, jmember{key: k, val: in.jsonFromNative(x[k], nil), present: tb.True})
		}
		return jv
	}
	unsupported("json: native value %T", x)
	return nil
}

// ---------- decoding ----------

func (in *Interp) jsonNumTo(jv *jval, t types.Type) (*smt.Term, bool) {
	tb := in.tb
	w, signed, isF, ok := scalarWidth(t)
	if !ok || w == 0 {
		return nil, false
	}
	switch {
	case isF && jv.isFloat:
		return tb.FToF(jv.num, w), true
	case isF:
		return tb.IntToF(jv.num, w, jv.signed), true
	case jv.isFloat:
		if jv.num.IsConst() {
			f := math.Float64frombits(jv.num.C)
			if f != math.Trunc(f) {
				return nil, false
			}
		}
		return tb.FToInt(jv.num, w, signed), true
	default:
		return tb.Resize(jv.num, w, jv.signed), true
	}
}

// jsonGeneric builds the interface{} form of a JSON value.
func (in *Interp) jsonGeneric(caller *frame, jv *jval) Value {
	tb := in.tb
	anyT := types.NewInterfaceType(nil, nil)
	switch jv.k {
	case jNull:
		return Iface{}
	case jBool:
		return Iface{T: types.Typ[types.Bool], V: jv.b}
	case jStr:
		return Iface{T: types.Typ[types.String], V: jv.s}
	case jNum:
		f := jv.num
		if !jv.isFloat {
			f = tb.IntToF(jv.num, 64, jv.signed)
		}
		return Iface{T: types.Typ[types.Float64], V: f}
	case jArr:
		s := make(Slice, 0, len(jv.arr))
		for _, e := range jv.arr {
			s = append(s, in.jsonGeneric(caller, e))
		}
		return Iface{T: types.NewSlice(anyT), V: s}
	case jObj:
		m := &Map{KT: types.Typ[types.String], VT: anyT}
		for _, mem := range jv.obj {
			if !in.branch(mem.present) {
				continue
			}
			in.mapSet(m, Str{S: mem.key}, in.jsonGeneric(caller, mem.val))
		}
		return Iface{T: types.NewMap(types.Typ[types.String], anyT), V: m}
	}
	return Iface{}
}

// jsonDecode stores jv into the cell c of type t; returns a Go error value (Iface) or nil interface.
func (in *Interp) jsonDecode(caller *frame, jv *jval, t types.Type, c *Value) Value {
	nilErr := Value(Iface{})
	// json.Unmarshaler on *T
	if _, isPtr := t.Underlying().(*types.Pointer); !isPtr || true {
		if f := in.hasMethod(types.NewPointer(t), "UnmarshalJSON"); f != nil && !(jv.k == jNull && isPointerLike(t)) {
			if _, isIface := t.Underlying().(*types.Interface); !isIface {
				return in.callFunction(caller, token.NoPos, f, []Value{Ptr{c}, jsonTokSlice(jv)}, nil)
			}
		}
	}
	if jv.k == jNull {
		switch t.Underlying().(type) {
		case *types.Pointer, *types.Map, *types.Slice, *types.Interface:
			in.storeCell(c, in.zero(t))
		}
		return nilErr
	}
	switch u := t.Underlying().(type) {
	case *types.Pointer:
		p := (*c).(Ptr)
		if p.C == nil {
			nc := new(Value)
			*nc = in.zero(u.Elem())
			p = Ptr{nc}
			in.storeCell(c, p)
		}
		return in.jsonDecode(caller, jv, u.Elem(), p.C)
	case *types.Interface:
		if u.NumMethods() != 0 {
			return in.jsonErr(caller, "cannot unmarshal into non-empty interface %s", t)
		}
		in.storeCell(c, in.jsonGeneric(caller, jv))
		return nilErr
	case *types.Basic:
		switch {
		case u.Info()&types.IsBoolean != 0:
			if jv.k != jBool {
				return in.jsonErr(caller, "cannot unmarshal %s into Go value of type %s", jkindName(jv.k), t)
			}
			in.storeCell(c, jv.b)
			return nilErr
		case u.Info()&types.IsString != 0:
			if jv.k != jStr {
				return in.jsonErr(caller, "cannot unmarshal %s into Go value of type %s", jkindName(jv.k), t)
			}
			in.storeCell(c, jv.s)
			return nilErr
		case u.Info()&types.IsNumeric != 0:
			if jv.k != jNum {
				return in.jsonErr(caller, "cannot unmarshal %s into Go value of type %s", jkindName(jv.k), t)
			}
			x, ok := in.jsonNumTo(jv, t)
			if !ok {
				return in.jsonErr(caller, "cannot unmarshal number into Go value of type %s", t)
			}
			in.storeCell(c, x)
			return nilErr
		}
	case *types.Struct:
		if jv.k != jObj {
			return in.jsonErr(caller, "cannot unmarshal %s into Go value of type %s", jkindName(jv.k), t)
		}
		st := (*c).(Struct)
		for _, mem := range jv.obj {
			fc, ft := in.jsonFindField(u, st, mem.key)
			if fc == nil {
				continue // unknown keys are ignored
			}
			if mem.present.IsTrue() {
				if e := in.jsonDecode(caller, mem.val, ft, fc); e.(Iface).T != nil {
					return e
				}
				continue
			}
			// conditionally present member: decode into a copy and merge
			tmp := new(Value)
			*tmp = copyVal(*fc)
			if e := in.jsonDecode(caller, mem.val, ft, tmp); e.(Iface).T != nil {
				return e
			}
			merged, ok := in.iteVal(mem.present, *tmp, *fc)
			if ok {
				in.storeCell(fc, merged)
			} else if in.branch(mem.present) {
				in.storeCell(fc, *tmp)
			}
		}
		return nilErr
	case *types.Map:
		if jv.k != jObj {
			return in.jsonErr(caller, "cannot unmarshal %s into Go value of type %s", jkindName(jv.k), t)
		}
		if !isString(u.Key()) {
			unsupported("json: map with key type %s", u.Key())
		}
		m, _ := (*c).(*Map)
		if m == nil {
			m = &Map{KT: u.Key(), VT: u.Elem()}
			in.storeCell(c, m)
		}
		for _, mem := range jv.obj {
			if !in.branch(mem.present) {
				continue
			}
			ec := new(Value)
			*ec = in.zero(u.Elem())
			if e := in.jsonDecode(caller, mem.val, u.Elem(), ec); e.(Iface).T != nil {
				return e
			}
			in.mapSet(m, Str{S: mem.key}, *ec)
		}
		return nilErr
	case *types.Slice:
		if b, ok := u.Elem().Underlying().(*types.Basic); ok && b.Kind() == types.Uint8 {
			// json.RawMessage is handled by its UnmarshalJSON method; a plain []byte would be base64
			if named, ok := t.(*types.Named); ok && named.Obj().Name() == "RawMessage" {
				in.storeCell(c, jsonTokSlice(jv))
				return nilErr
			}
			unsupported("json: []byte values (base64) are not modelled")
		}
		if jv.k != jArr {
			return in.jsonErr(caller, "cannot unmarshal %s into Go value of type %s", jkindName(jv.k), t)
		}
		s := make(Slice, len(jv.arr))
		for i, e := range jv.arr {
			s[i] = in.zero(u.Elem())
			if er := in.jsonDecode(caller, e, u.Elem(), &s[i]); er.(Iface).T != nil {
				return er
			}
		}
		in.storeCell(c, s)
		return nilErr
	case *types.Array:
		if jv.k != jArr {
			return in.jsonErr(caller, "cannot unmarshal %s into Go value of type %s", jkindName(jv.k), t)
		}
		a := (*c).(Array)
		for i := range a {
			if i < len(jv.arr) {
				if er := in.jsonDecode(caller, jv.arr[i], u.Elem(), &a[i]); er.(Iface).T != nil {
					return er
				}
			}
		}
		return nilErr
	}
	unsupported("json: decoding into %s", t)
	return nil
}

func isPointerLike(t types.Type) bool {
	switch t.Underlying().(type) {
	case *types.Pointer, *types.Map, *types.Slice, *types.Interface:
		return true
	}
	return false
}

func jkindName(k jkind) string {
	return [...]string{"null", "bool", "number", "string", "array", "object"}[k]
}

// jsonFindField finds the struct field a JSON key addresses (exact name, then case-insensitive),
// looking through embedded structs.
func (in *Interp) jsonFindField(u *types.Struct, st Struct, key string) (*Value, types.Type) {
	if c, t := in.jsonFindField1(u, st, key, false); c != nil {
		return c, t
	}
	return in.jsonFindField1(u, st, key, true)
}

// jsonFindField1: fields declared at this depth win over fields of embedded structs (Go's
// shadowing rule); fold selects case-insensitive matching.
func (in *Interp) jsonFindField1(u *types.Struct, st Struct, key string, fold bool) (*Value, types.Type) {
	match := func(name string) bool {
		if fold {
			return strings.EqualFold(name, key)
		}
		return name == key
	}
	isEmb := func(i int) bool {
		return u.Field(i).Anonymous() && reflect.StructTag(u.Tag(i)).Get("json") == ""
	}
	for i := 0; i < u.NumFields(); i++ {
		f := u.Field(i)
		tag := parseJSONTag(f, u.Tag(i))
		if tag.skip || isEmb(i) || !f.Exported() {
			continue
		}
		if match(tag.name) {
			return &st[i], f.Type()
		}
	}
	for i := 0; i < u.NumFields(); i++ {
		f := u.Field(i)
		tag := parseJSONTag(f, u.Tag(i))
		if tag.skip || !isEmb(i) {
			continue
		}
		ft := f.Type()
		fc := &st[i]
		if pt, ok := ft.Underlying().(*types.Pointer); ok {
			es, ok := pt.Elem().Underlying().(*types.Struct)
			if !ok {
				continue
			}
			p := (*fc).(Ptr)
			if p.C == nil {
				nc := new(Value)
				*nc = in.zero(pt.Elem())
				p = Ptr{nc}
				in.storeCell(fc, p)
			}
			if c, t := in.jsonFindField1(es, (*p.C).(Struct), key, fold); c != nil {
				return c, t
			}
			continue
		}
		if es, ok := ft.Underlying().(*types.Struct); ok {
			if c, t := in.jsonFindField1(es, (*fc).(Struct), key, fold); c != nil {
				return c, t
			}
		}
	}
	return nil, nil
}

// ---------- structural equality of JSON texts ----------

func (in *Interp) jsonEq(a, b *jval) *smt.Term {
	tb := in.tb
	if a.k != b.k {
		return tb.False
	}
	switch a.k {
	case jNull:
		return tb.True
	case jBool:
		return tb.Eq(a.b, b.b)
	case jNum:
		if a.isFloat != b.isFloat {
			return tb.False
		}
		if a.num.W != b.num.W {
			return tb.Eq(tb.Resize(a.num, 64, a.signed), tb.Resize(b.num, 64, b.signed))
		}
		return tb.Eq(a.num, b.num)
	case jStr:
		return in.strEq(a.s, b.s)
	case jArr:
		if len(a.arr) != len(b.arr) {
			return tb.False
		}
		r := tb.True
		for i := range a.arr {
			r = tb.And(r, in.jsonEq(a.arr[i], b.arr[i]))
		}
		return r
	case jObj:
		// same keys in the same order with the same presence and equal values where present
		if len(a.obj) != len(b.obj) {
			// members that are never present on one side
			return in.jsonObjEqLoose(a, b)
		}
		r := tb.True
		for i := range a.obj {
			if a.obj[i].key != b.obj[i].key {
				return in.jsonObjEqLoose(a, b)
			}
			r = tb.And(r, tb.Eq(a.obj[i].present, b.obj[i].present))
			r = tb.And(r, tb.Implies(a.obj[i].present, in.jsonEq(a.obj[i].val, b.obj[i].val)))
		}
		return r
	}
	return tb.False
}

func (in *Interp) jsonObjEqLoose(a, b *jval) *smt.Term {
	tb := in.tb
	find := func(o *jval, k string) *jmember {
		for i := range o.obj {
			if o.obj[i].key == k {
				return &o.obj[i]
			}
		}
		return nil
	}
	r := tb.True
	for i := range a.obj {
		mb := find(b, a.obj[i].key)
		if mb == nil {
			r = tb.And(r, tb.Not(a.obj[i].present))
			continue
		}
		r = tb.And(r, tb.Eq(a.obj[i].present, mb.present))
		r = tb.And(r, tb.Implies(mb.present, in.jsonEq(a.obj[i].val, mb.val)))
	}
	for i := range b.obj {
		if find(a, b.obj[i].key) == nil {
			r = tb.And(r, tb.Not(b.obj[i].present))
		}
	}
	return r
}

func init() {
	nilErr := Iface{}
	reg("encoding/json.Marshal", func(in *Interp, caller *frame, pos token.Pos, fn *ssa.Function, args []Value) (res Value) {
		in.noteUsed("encoding/json abstract tree model")
		defer func() {
			if r := recover(); r != nil {
				if e, ok := r.(jsonEncErr); ok {
					res = Tuple{Slice(nil), e.err}
					return
				}
				panic(r)
			}
		}()
		i := args[0].(Iface)
		if i.T == nil {
			return Tuple{jsonTokSlice(&jval{k: jNull}), nilErr}
		}
		return Tuple{jsonTokSlice(in.jsonEncode(caller, i.T, i.V)), nilErr}
	})
	reg("encoding/json.Unmarshal", func(in *Interp, caller *frame, pos token.Pos, fn *ssa.Function, args []Value) Value {
		in.noteUsed("encoding/json abstract tree model")
		jv, perr := in.jsonFromBytes(args[0])
		if perr != "" {
			if strings.HasPrefix(perr, "syntax") {
				return in.jsonErr(caller, "%s", perr)
			}
			unsupported("json.Unmarshal: %s", perr)
		}
		i := args[1].(Iface)
		if i.T == nil {
			return in.jsonErr(caller, "Unmarshal(nil)")
		}
		pt, ok := i.T.Underlying().(*types.Pointer)
		if !ok {
			return in.jsonErr(caller, "Unmarshal(non-pointer %s)", i.T)
		}
		p := i.V.(Ptr)
		if p.C == nil {
			return in.jsonErr(caller, "Unmarshal(nil %s)", i.T)
		}
		return in.jsonDecode(caller, jv, pt.Elem(), p.C)
	})
	reg(RTPkg+".JSONEqual", func(in *Interp, caller *frame, pos token.Pos, fn *ssa.Function, args []Value) Value {
		a, e1 := in.jsonFromBytes(args[0])
		b, e2 := in.jsonFromBytes(args[1])
		if e1 != "" || e2 != "" {
			unsupported("JSONEqual: %s %s", e1, e2)
		}
		return in.jsonEq(a, b)
	})
}
