package interp

import (
	"go/token"

	"golang.org/x/tools/go/ssa"

	"symgo/smt"
)

// Contract model of the instants bleve converts between nanoseconds, time.Time and RFC 3339 text
// (date sort keys, date range bounds), used only when the nanosecond count is symbolic: the
// calendar arithmetic of package time divides and multiplies by 10^9 and by days per 400 years,
// which the solvers here do not decide at 64 bits. AbsTime is a time.Time known only by its Unix
// nanoseconds. Supported on it: UTC/Local/In (no change of instant), UnixNano, IsZero, Equal/Before/
// After against another AbsTime, Format with the layouts RFC3339Nano (exact) and RFC3339 (whole
// seconds, rounded down as formatting does); Parse of such text gives the instant back. Anything
// else done to an AbsTime is "unsupported" (the check is inconclusive, never silently wrong).
// Natively (replays) the real package time runs.
type AbsTime struct{ NS *smt.Term }

const billion = 1_000_000_000

func (in *Interp) absTimeToken(v *smt.Term) Str {
	bs := []*smt.Term{in.tb.BV(8, 1), in.tb.BV(8, 'T')}
	for i := 7; i >= 0; i-- {
		bs = append(bs, in.tb.Extract(v, i*8+7, i*8))
	}
	return Str{B: bs}
}

func absTimeOfToken(in *Interp, s Str) (*smt.Term, bool) {
	if s.B == nil || len(s.B) != 10 || !s.B[0].IsConst() || s.B[0].C != 1 || !s.B[1].IsConst() || s.B[1].C != 'T' {
		return nil, false
	}
	v := s.B[2]
	for i := 3; i < 10; i++ {
		v = in.tb.Concat(v, s.B[i])
	}
	return v, true
}

func init() {
	reg("time.Unix", func(in *Interp, caller *frame, pos token.Pos, fn *ssa.Function, args []Value) Value {
		sec, ns := term(args[0]), term(args[1])
		if sec.IsConst() && ns.IsConst() {
			return in.callSSA(caller, fn, args, nil)
		}
		if !(sec.IsConst() && sec.C == 0) {
			unsupported("time.Unix with symbolic seconds")
		}
		in.noteUsed("time.Time known by its Unix nanoseconds (contract model of Unix/UnixNano/Format/Parse for RFC 3339 layouts)")
		return AbsTime{NS: ns}
	})
	same := func(name string) {
		reg("(time.Time)."+name, func(in *Interp, caller *frame, pos token.Pos, fn *ssa.Function, args []Value) Value {
			if t, ok := args[0].(AbsTime); ok {
				return t
			}
			return in.callSSA(caller, fn, args, nil)
		})
	}
	same("UTC")
	same("Local")
	same("In")
	reg("(time.Time).UnixNano", func(in *Interp, caller *frame, pos token.Pos, fn *ssa.Function, args []Value) Value {
		if t, ok := args[0].(AbsTime); ok {
			return t.NS
		}
		return in.callSSA(caller, fn, args, nil)
	})
	reg("(time.Time).IsZero", func(in *Interp, caller *frame, pos token.Pos, fn *ssa.Function, args []Value) Value {
		if _, ok := args[0].(AbsTime); ok {
			return in.tb.False // year 1 is not representable as int64 Unix nanoseconds
		}
		return in.callSSA(caller, fn, args, nil)
	})
	cmp := func(name string, cmpf func(in *Interp, a, b *smt.Term) *smt.Term) {
		reg("(time.Time)."+name, func(in *Interp, caller *frame, pos token.Pos, fn *ssa.Function, args []Value) Value {
			a, ok1 := args[0].(AbsTime)
			b, ok2 := args[1].(AbsTime)
			if ok1 && ok2 {
				return cmpf(in, a.NS, b.NS)
			}
			if ok1 || ok2 {
				// the other side is an ordinary (concrete) time: take its Unix nanoseconds from the real code
				var other Value
				if ok1 {
					other = args[1]
				} else {
					other = args[0]
				}
				f := in.findMethod(fn.Signature.Recv().Type(), "UnixNano")
				if f == nil {
					unsupported("time.Time.UnixNano not found")
				}
				ns := term(in.callSSA(caller, f, []Value{other}, nil))
				if ok1 {
					return cmpf(in, a.NS, ns)
				}
				return cmpf(in, ns, b.NS)
			}
			return in.callSSA(caller, fn, args, nil)
		})
	}
	cmp("Equal", func(in *Interp, a, b *smt.Term) *smt.Term { return in.tb.Eq(a, b) })
	cmp("Before", func(in *Interp, a, b *smt.Term) *smt.Term { return in.tb.Cmp(smt.OpSlt, a, b) })
	cmp("After", func(in *Interp, a, b *smt.Term) *smt.Term { return in.tb.Cmp(smt.OpSlt, b, a) })
	reg("(time.Time).Format", func(in *Interp, caller *frame, pos token.Pos, fn *ssa.Function, args []Value) Value {
		t, ok := args[0].(AbsTime)
		if !ok {
			return in.callSSA(caller, fn, args, nil)
		}
		layout := in.concreteStr(args[1], "time layout")
		switch layout {
		case "2006-01-02T15:04:05.999999999Z07:00": // RFC3339Nano
			return in.absTimeToken(t.NS)
		case "2006-01-02T15:04:05Z07:00": // RFC3339: whole seconds, the fraction is dropped (floor)
			tb := in.tb
			b := tb.BV(64, billion)
			r := tb.Bin(smt.OpSRem, t.NS, b)
			r = tb.Ite(tb.Cmp(smt.OpSlt, r, tb.BV(64, 0)), tb.Add(r, b), r)
			return in.absTimeToken(tb.Sub(t.NS, r))
		}
		unsupported("time.Time.Format of a symbolic instant with layout %q", layout)
		return nil
	})
	reg("time.Parse", func(in *Interp, caller *frame, pos token.Pos, fn *ssa.Function, args []Value) Value {
		s, _ := args[1].(Str)
		if v, ok := absTimeOfToken(in, s); ok {
			return Tuple{AbsTime{NS: v}, Iface{}}
		}
		if s.B != nil && !s.IsConcrete() {
			unsupported("time.Parse of symbolic text that was not produced by Format")
		}
		return in.callSSA(caller, fn, args, nil)
	})
}
