package interp

import (
	"fmt"
	"go/token"
	"go/types"
	"path/filepath"
	"sort"
	"strings"

	"golang.org/x/tools/go/ssa"

	"symgo/smt"
)

// Model of the few file system calls scorch's bookkeeping makes (a name -> content map per path),
// opaque serialisation stubs for time stamps / roaring bitmaps / stats JSON, all symbolic-mode only:
// native replays use the real OS and libraries.

type fsState struct {
	files map[string][]*smt.Term
	dirs  map[string]bool
	ntmp  int
	log   []string // effect log: "write <name>", "remove <name>"
}

func (in *Interp) fs() *fsState {
	if st, ok := in.p.sync["fs"]; ok {
		return st.(*fsState)
	}
	st := &fsState{files: map[string][]*smt.Term{}, dirs: map[string]bool{}}
	in.p.sync["fs"] = st
	return st
}

func (in *Interp) osErr(name string) Value {
	pkg := in.prog.ImportedPackage("os")
	if pkg == nil {
		unsupported("package os not loaded")
	}
	g, ok := pkg.Members[name].(*ssa.Global)
	if !ok {
		unsupported("os.%s not found", name)
	}
	v := in.load(token.NoPos, in.global(g))
	if i, ok := v.(Iface); ok && i.T != nil {
		return v
	}
	// the os package's initialiser could not run: fall back to a fresh error value
	return in.callPkgFunc(nil, "errors", "New", Str{S: "file does not exist"})
}

// invoke calls a method of an interface value.
func (in *Interp) invoke(caller *frame, pos token.Pos, recv Value, method string, args ...Value) Value {
	i, ok := recv.(Iface)
	if !ok || i.T == nil {
		in.rtPanic(pos, "invalid memory address or nil pointer dereference (method call on nil interface)")
	}
	f := in.findMethod(i.T, method)
	if f == nil {
		unsupported("method %s not found on %s", method, i.T)
	}
	return in.callFunction(caller, pos, f, append([]Value{i.V}, args...), nil)
}

func init() {
	nilErr := Iface{}
	reg("os.MkdirTemp", func(in *Interp, caller *frame, pos token.Pos, fn *ssa.Function, args []Value) Value {
		st := in.fs()
		st.ntmp++
		d := fmt.Sprintf("/symfs/tmp%d", st.ntmp)
		st.dirs[d] = true
		in.noteUsed("file system model (name -> content map)")
		return Tuple{Str{S: d}, nilErr}
	})
	reg("os.MkdirAll", func(in *Interp, caller *frame, pos token.Pos, fn *ssa.Function, args []Value) Value {
		in.fs().dirs[in.concreteStr(args[0], "path")] = true
		return nilErr
	})
	reg("os.Mkdir", func(in *Interp, caller *frame, pos token.Pos, fn *ssa.Function, args []Value) Value {
		in.fs().dirs[in.concreteStr(args[0], "path")] = true
		return nilErr
	})
	reg("os.WriteFile", func(in *Interp, caller *frame, pos token.Pos, fn *ssa.Function, args []Value) Value {
		st := in.fs()
		name := filepath.Clean(in.concreteStr(args[0], "file name"))
		st.files[name] = termsOf(args[1])
		st.log = append(st.log, "write "+name)
		return nilErr
	})
	reg("os.ReadFile", func(in *Interp, caller *frame, pos token.Pos, fn *ssa.Function, args []Value) Value {
		st := in.fs()
		name := filepath.Clean(in.concreteStr(args[0], "file name"))
		data, ok := st.files[name]
		if !ok {
			return Tuple{Slice(nil), in.osErr("ErrNotExist")}
		}
		if data == nil {
			data = []*smt.Term{}
		}
		return Tuple{in.bytesVal(data), nilErr}
	})
	reg("os.Remove", func(in *Interp, caller *frame, pos token.Pos, fn *ssa.Function, args []Value) Value {
		st := in.fs()
		name := filepath.Clean(in.concreteStr(args[0], "file name"))
		if _, ok := st.files[name]; !ok {
			return in.osErr("ErrNotExist")
		}
		delete(st.files, name)
		st.log = append(st.log, "remove "+name)
		return nilErr
	})
	statFn := func(in *Interp, caller *frame, pos token.Pos, fn *ssa.Function, args []Value) Value {
		st := in.fs()
		name := filepath.Clean(in.concreteStr(args[0], "file name"))
		data, ok := st.files[name]
		if !ok && !st.dirs[name] {
			return Tuple{Iface{}, in.osErr("ErrNotExist")}
		}
		pkg := in.prog.ImportedPackage("os")
		ft := pkg.Type("fileStat")
		if ft == nil {
			unsupported("os.fileStat not found")
		}
		fst := ft.Type().Underlying().(*types.Struct)
		fz := in.zero(ft.Type()).(Struct)
		for j := 0; j < fst.NumFields(); j++ {
			switch fst.Field(j).Name() {
			case "name":
				fz[j] = Str{S: filepath.Base(name)}
			case "size":
				fz[j] = in.tb.BV(64, uint64(len(data)))
			}
		}
		fc := new(Value)
		*fc = fz
		return Tuple{Iface{T: types.NewPointer(ft.Type()), V: Ptr{fc}}, nilErr}
	}
	reg("os.Stat", statFn)
	reg("os.Lstat", statFn)
	reg("os.RemoveAll", func(in *Interp, caller *frame, pos token.Pos, fn *ssa.Function, args []Value) Value {
		st := in.fs()
		name := filepath.Clean(in.concreteStr(args[0], "path"))
		for f := range st.files {
			if f == name || strings.HasPrefix(f, name+"/") {
				delete(st.files, f)
			}
		}
		delete(st.dirs, name)
		return nilErr
	})
	reg("os.ReadDir", func(in *Interp, caller *frame, pos token.Pos, fn *ssa.Function, args []Value) Value {
		st := in.fs()
		dir := filepath.Clean(in.concreteStr(args[0], "dir"))
		var names []string
		for f := range st.files {
			if filepath.Dir(f) == dir {
				names = append(names, filepath.Base(f))
			}
		}
		sort.Strings(names)
		pkg := in.prog.ImportedPackage("os")
		dt := pkg.Type("unixDirent")
		if dt == nil {
			unsupported("os.unixDirent not found")
		}
		stt := dt.Type().Underlying().(*types.Struct)
		out := make(Slice, 0, len(names))
		for _, n := range names {
			c := new(Value)
			z := in.zero(dt.Type()).(Struct)
			for i := 0; i < stt.NumFields(); i++ {
				switch stt.Field(i).Name() {
				case "name":
					z[i] = Str{S: n}
				case "parent":
					z[i] = Str{S: dir}
				case "info":
					// a FileInfo carrying name and size, so that Info() needs no system call
					if ft := pkg.Type("fileStat"); ft != nil {
						fst := ft.Type().Underlying().(*types.Struct)
						fz := in.zero(ft.Type()).(Struct)
						for j := 0; j < fst.NumFields(); j++ {
							switch fst.Field(j).Name() {
							case "name":
								fz[j] = Str{S: n}
							case "size":
								fz[j] = in.tb.BV(64, uint64(len(st.files[filepath.Join(dir, n)])))
							}
						}
						fc := new(Value)
						*fc = fz
						z[i] = Iface{T: types.NewPointer(ft.Type()), V: Ptr{fc}}
					}
				}
			}
			*c = z
			out = append(out, Iface{T: types.NewPointer(dt.Type()), V: Ptr{c}})
		}
		return Tuple{out, nilErr}
	})

	reg(RTPkg+".CopyTree", func(in *Interp, caller *frame, pos token.Pos, fn *ssa.Function, args []Value) Value {
		st := in.fs()
		src := filepath.Clean(in.concreteStr(args[0], "src"))
		dst := filepath.Clean(in.concreteStr(args[1], "dst"))
		st.dirs[dst] = true
		for f, data := range st.files {
			if filepath.Dir(f) == src {
				st.files[filepath.Join(dst, filepath.Base(f))] = data
			}
		}
		// bolt files: the committed state
		pre := "boltfile:" + src + "/"
		for k, v := range in.p.sync {
			ks, ok := k.(string)
			if !ok || !strings.HasPrefix(ks, pre) {
				continue
			}
			bf := v.(*boltFile)
			in.p.sync["boltfile:"+dst+"/"+strings.TrimPrefix(ks, pre)] = &boltFile{root: bf.root.clone()}
		}
		return nilErr
	})

	// time stamps: an opaque but invertible text form
	reg("(time.Time).MarshalText", func(in *Interp, caller *frame, pos token.Pos, fn *ssa.Function, args []Value) Value {
		t := args[0].(Struct)
		sec := term(t[1])
		out := make(Slice, 9)
		out[0] = in.tb.BV(8, 'T')
		for i := 0; i < 8; i++ {
			out[1+i] = in.tb.Extract(sec, 63-8*i, 56-8*i)
		}
		in.noteUsed("time.Time text form is an opaque invertible token")
		return Tuple{out, nilErr}
	})
	reg("(*time.Time).UnmarshalText", func(in *Interp, caller *frame, pos token.Pos, fn *ssa.Function, args []Value) Value {
		data := termsOf(args[1])
		if len(data) != 9 {
			return in.callPkgFunc(caller, "errors", "New", Str{S: "bad time token"})
		}
		sec := data[1]
		for i := 2; i < 9; i++ {
			sec = in.tb.Concat(sec, data[i])
		}
		c := cellOf(args[0])
		st := (*c).(Struct)
		in.storeCell(&st[0], in.tb.BV(64, 0))
		in.storeCell(&st[1], sec)
		return nilErr
	})

	// roaring (de)serialisation
	reg("(*"+roaringPkg+".Bitmap).WriteTo", func(in *Interp, caller *frame, pos token.Pos, fn *ssa.Function, args []Value) Value {
		b := in.bmGet(pos, args[0])
		buf := Slice{in.tb.Extract(b.Bits, 7, 0), in.tb.Extract(b.Bits, 15, 8)}
		res := in.invoke(caller, pos, args[1], "Write", buf).(Tuple)
		return Tuple{in.tb.BV(64, 2), res[1]}
	})
	reg("(*"+roaringPkg+".Bitmap).ReadFrom", func(in *Interp, caller *frame, pos token.Pos, fn *ssa.Function, args []Value) Value {
		buf := Slice{in.tb.BV(8, 0), in.tb.BV(8, 0)}
		res := in.invoke(caller, pos, args[1], "Read", buf).(Tuple)
		n := term(res[0])
		if !n.IsConst() || n.C != 2 {
			return Tuple{in.tb.BV(64, 0), in.callPkgFunc(caller, "errors", "New", Str{S: "roaring model: short read"})}
		}
		in.bmSet(args[0], in.tb.Concat(term(buf[1]), term(buf[0])))
		return Tuple{in.tb.BV(64, 2), nilErr}
	})

}
