package interp

import (
	"fmt"
	"go/constant"
	"go/token"
	"go/types"
	"math"
	"os"
	"runtime/debug"
	"strings"
	"sync"

	"golang.org/x/tools/go/ssa"

	"symgo/smt"
)

// ---------- panics used for control ----------

// goPanic is a Go-level panic travelling through interpreted frames.
type goPanic struct {
	v   Value // the panic value (an Iface)
	msg string
	pos token.Pos
}

// pathEnd terminates the current path.
type pathEnd struct {
	kind string // "done", "infeasible", "unwind", "deadlock", "killed", "exit"
	msg  string
}

type continuation int

const (
	kNext continuation = iota
	kReturn
	kJump
)

type deferred struct {
	fn    Value
	args  []Value
	instr *ssa.Defer
}

type frame struct {
	in        *Interp
	caller    *frame
	fn        *ssa.Function
	block     *ssa.BasicBlock
	prev      *ssa.BasicBlock
	env       map[ssa.Value]Value
	defers    []*deferred
	result    Value
	panicking bool
	panicVal  any
	tolerant  bool // package initialiser: failing instructions poison their result
}

type gStatus int

const (
	gRunnable gStatus = iota
	gRunning
	gBlocked
	gDone
)

type G struct {
	id     int
	wake   chan struct{}
	status gStatus
	ready  func() bool
	where  string // where the goroutine blocked last (for deadlock reports)
}

// Interp is one worker's interpreter state.
type Interp struct {
	prog     *ssa.Program
	tb       *smt.Table
	sol      *smt.Solver
	cfg      *Config
	globals  map[*ssa.Global]*Value
	initDone map[*ssa.Package]bool
	initing  int
	journal  []undo
	consts   map[*ssa.Const]Value
	p        *pathState
	cur      *G
	fnCount  map[*ssa.Function]int // instructions executed per function (evidence)
	trace    bool
	errType  types.Type
	sink     *Sink
	onceInit map[*Value]bool
	lastFn    *ssa.Function
	lastFrame *frame
	lastInstr ssa.Instruction
}

type undo struct {
	c   *Value
	old Value
	m   *Map
	ent []*MapEntry
}

type Config struct {
	MaxDecisions int // symbolic decisions per path
	MaxSteps     int // instructions per path
	Params       map[string]int
	SolverName   string
	TimeoutMS    int
	Trace        bool
	Tier         string
}

func NewInterp(prog *ssa.Program, cfg *Config) (*Interp, error) {
	sol, err := smt.NewSolver(cfg.SolverName, cfg.TimeoutMS)
	if err != nil {
		return nil, err
	}
	if lf := os.Getenv("VERIF_SOLVER_LOG"); lf != "" {
		if f, err := os.OpenFile(lf, os.O_CREATE|os.O_WRONLY|os.O_APPEND, 0o644); err == nil {
			sol.Log = f
		}
	}
	in := &Interp{
		prog:     prog,
		tb:       smt.NewTable(),
		sol:      sol,
		cfg:      cfg,
		globals:  map[*ssa.Global]*Value{},
		initDone: map[*ssa.Package]bool{},
		consts:   map[*ssa.Const]Value{},
		fnCount:  map[*ssa.Function]int{},
		trace:    cfg.Trace,
	}
	in.errType = types.Universe.Lookup("error").Type()
	return in, nil
}

func (in *Interp) Close() { in.sol.Close() }

// ---------- globals and lazy package initialisation ----------

func (in *Interp) global(g *ssa.Global) Ptr {
	if c, ok := in.globals[g]; ok {
		return Ptr{c}
	}
	in.ensureInit(g.Pkg)
	if c, ok := in.globals[g]; ok {
		return Ptr{c}
	}
	c := new(Value)
	*c = in.zero(g.Type().(*types.Pointer).Elem())
	in.globals[g] = c
	return Ptr{c}
}

func (in *Interp) ensureInit(pkg *ssa.Package) {
	if pkg == nil || in.initDone[pkg] {
		return
	}
	in.initDone[pkg] = true
	// globals are zeroed lazily on first access (some packages declare very large tables)
	initFn := pkg.Func("init")
	if initFn == nil || initFn.Blocks == nil {
		return
	}
	in.initing++
	savedCur := in.cur
	defer func() {
		in.initing--
		in.cur = savedCur
		if r := recover(); r != nil {
			switch r.(type) {
			case Unsupported, goPanic:
				// tolerated: the rest of this initialiser is skipped; affected globals stay zero/poisoned
				if in.trace {
					fmt.Fprintf(os.Stderr, "init %s aborted: %v\n", pkg.Pkg.Path(), r)
				}
			default:
				panic(r)
			}
		}
	}()
	fr := &frame{in: in, fn: initFn, env: map[ssa.Value]Value{}, tolerant: true}
	fr.block = initFn.Blocks[0]
	in.runFrame(fr)
}

// ---------- constants ----------

func (in *Interp) constValue(c *ssa.Const) Value {
	if v, ok := in.consts[c]; ok {
		return v
	}
	v := in.constValue1(c)
	in.consts[c] = v
	return v
}

func (in *Interp) constValue1(c *ssa.Const) Value {
	t := c.Type()
	if c.Value == nil {
		if _, ok := t.(*types.TypeParam); ok {
			unsupported("zero constant of type parameter")
		}
		return in.zero(t)
	}
	if b, ok := t.Underlying().(*types.Basic); ok {
		switch {
		case b.Info()&types.IsBoolean != 0:
			return in.tb.Bool(constant.BoolVal(c.Value))
		case b.Info()&types.IsString != 0:
			if c.Value.Kind() == constant.String {
				return Str{S: constant.StringVal(c.Value)}
			}
			return Str{S: string(rune(c.Int64()))}
		case b.Info()&types.IsInteger != 0:
			w, signed, _, _ := scalarWidth(t)
			if signed {
				return in.tb.BV(w, uint64(c.Int64()))
			}
			return in.tb.BV(w, c.Uint64())
		case b.Info()&types.IsFloat != 0:
			f := c.Float64()
			if b.Kind() == types.Float32 {
				return in.tb.BV(32, uint64(math.Float32bits(float32(f))))
			}
			return in.tb.BV(64, math.Float64bits(f))
		}
	}
	unsupported("constant %s of type %s", c, t)
	return nil
}

// ---------- frames ----------

func (fr *frame) get(key ssa.Value) Value {
	switch key := key.(type) {
	case nil:
		return nil
	case *ssa.Function:
		return &Closure{Fn: key}
	case *ssa.Builtin:
		return key
	case *ssa.Const:
		return fr.in.constValue(key)
	case *ssa.Global:
		return fr.in.global(key)
	}
	if r, ok := fr.env[key]; ok {
		return r
	}
	panic(fmt.Sprintf("get: no value for %T: %v in %s", key, key.Name(), fr.fn))
}

func (in *Interp) posStr(pos token.Pos) string {
	if !pos.IsValid() {
		return "?"
	}
	p := in.prog.Fset.Position(pos)
	f := p.Filename
	if i := strings.LastIndex(f, "/"); i >= 0 {
		if j := strings.LastIndex(f[:i], "/"); j >= 0 {
			f = f[j+1:]
		}
	}
	return fmt.Sprintf("%s:%d", f, p.Line)
}

func (in *Interp) goPanicStr(pos token.Pos, msg string) goPanic {
	return goPanic{v: Iface{T: types.Typ[types.String], V: Str{S: msg}}, msg: msg, pos: pos}
}

func (in *Interp) rtPanic(pos token.Pos, msg string) {
	panic(in.goPanicStr(pos, "runtime error: "+msg))
}

// callSSA runs an SSA function body.
func (in *Interp) callSSA(caller *frame, fn *ssa.Function, args []Value, env []Value) Value {
	if fn.Blocks == nil {
		unsupported("external function %s", fn)
	}
	if len(args) != len(fn.Params) {
		panic(fmt.Sprintf("callSSA %s: %d args for %d params", fn, len(args), len(fn.Params)))
	}
	fr := &frame{in: in, caller: caller, fn: fn, env: make(map[ssa.Value]Value, 16)}
	for i, p := range fn.Params {
		fr.env[p] = args[i]
	}
	for i, fv := range fn.FreeVars {
		fr.env[fv] = env[i]
	}
	fr.block = fn.Blocks[0]
	for fr.block != nil {
		in.runFrame(fr)
	}
	return fr.result
}

func (in *Interp) runFrame(fr *frame) {
	defer func() {
		if fr.block == nil {
			return // normal return
		}
		r := recover()
		gp, isGo := r.(goPanic)
		if !isGo {
			panic(r) // control panic (path end, unsupported) or interpreter bug: propagate untouched
		}
		fr.panicking = true
		fr.panicVal = gp
		in.runDefers(fr)
		// recovered
		fr.block = fr.fn.Recover
		if fr.block == nil {
			// no named results: return zero values
			fr.result = in.zeroResults(fr.fn)
		}
	}()
	for {
		// phis (parallel assignment)
		instrs := fr.block.Instrs
		n := 0
		for n < len(instrs) {
			if _, ok := instrs[n].(*ssa.Phi); !ok {
				break
			}
			n++
		}
		if n > 0 {
			idx := -1
			for i, p := range fr.block.Preds {
				if p == fr.prev {
					idx = i
					break
				}
			}
			tmp := make([]Value, n)
			for i := 0; i < n; i++ {
				tmp[i] = fr.get(instrs[i].(*ssa.Phi).Edges[idx])
			}
			for i := 0; i < n; i++ {
				fr.env[instrs[i].(*ssa.Phi)] = tmp[i]
			}
		}
		for _, instr := range instrs[n:] {
			var k continuation
			if fr.tolerant {
				k = in.visitTolerant(fr, instr)
			} else {
				k = in.visitInstr(fr, instr)
			}
			if k == kReturn {
				return
			}
			if k == kJump {
				break
			}
		}
	}
}

func (in *Interp) visitTolerant(fr *frame, instr ssa.Instruction) (k continuation) {
	defer func() {
		if r := recover(); r != nil {
			switch e := r.(type) {
			case Unsupported, goPanic:
				why := fmt.Sprint(e)
				if gp, ok := r.(goPanic); ok {
					why = "panic: " + gp.msg
				}
				if v, ok := instr.(ssa.Value); ok {
					fr.env[v] = Poison{Why: fmt.Sprintf("%s (init of %s)", why, fr.fn.Pkg.Pkg.Path())}
					k = kNext
					return
				}
				switch instr.(type) {
				case *ssa.If, *ssa.Jump, *ssa.Return:
					panic(r)
				}
				k = kNext
			default:
				panic(r)
			}
		}
	}()
	return in.visitInstr(fr, instr)
}

func (in *Interp) zeroResults(fn *ssa.Function) Value {
	res := fn.Signature.Results()
	switch res.Len() {
	case 0:
		return nil
	case 1:
		return in.zero(res.At(0).Type())
	}
	return in.zero(res)
}

func (in *Interp) runDefers(fr *frame) {
	for len(fr.defers) > 0 {
		d := fr.defers[len(fr.defers)-1]
		fr.defers = fr.defers[:len(fr.defers)-1]
		in.runDefer(fr, d)
	}
	if fr.panicking {
		panic(fr.panicVal)
	}
}

func (in *Interp) runDefer(fr *frame, d *deferred) {
	ok := false
	defer func() {
		if !ok {
			r := recover()
			if gp, isGo := r.(goPanic); isGo {
				fr.panicking = true
				fr.panicVal = gp
				return
			}
			panic(r)
		}
	}()
	in.callValue(fr, d.instr.Pos(), d.fn, d.args)
	ok = true
}

// ---------- calls ----------

func (in *Interp) prepareCall(fr *frame, call *ssa.CallCommon) (Value, []Value) {
	v := fr.get(call.Value)
	var fn Value
	var args []Value
	if call.Method == nil {
		fn = v
	} else {
		recv, ok := v.(Iface)
		if !ok {
			if p, isP := v.(Poison); isP {
				unsupported("invoke on poisoned value: %s", p.Why)
			}
			panic(fmt.Sprintf("invoke on %T", v))
		}
		if recv.T == nil {
			in.rtPanic(call.Pos(), "invalid memory address or nil pointer dereference (method call on nil interface)")
		}
		if rt, ok := recv.V.(RType); ok {
			fn = rtypeMethod{rt: rt, name: call.Method.Name()}
		} else {
			f := in.prog.LookupMethod(recv.T, call.Method.Pkg(), call.Method.Name())
			if f == nil {
				unsupported("method %s not found on %s", call.Method.Name(), recv.T)
			}
			fn = &Closure{Fn: f}
			args = append(args, recv.V)
		}
	}
	for _, a := range call.Args {
		args = append(args, fr.get(a))
	}
	return fn, args
}

type rtypeMethod struct {
	rt   RType
	name string
}

func (in *Interp) callValue(caller *frame, pos token.Pos, fn Value, args []Value) Value {
	switch fn := fn.(type) {
	case *Closure:
		if fn == nil {
			in.rtPanic(pos, "invalid memory address or nil pointer dereference (call of nil func)")
		}
		return in.callFunction(caller, pos, fn.Fn, args, fn.Env)
	case *ssa.Builtin:
		return in.callBuiltin(caller, pos, fn, args)
	case rtypeMethod:
		switch fn.name {
		case "Size":
			return in.tb.BV(64, uint64(sizes.Sizeof(fn.rt.T)))
		case "String":
			return Str{S: fn.rt.T.String()}
		}
		unsupported("reflect.Type.%s", fn.name)
	case *goWrap:
		in.callValue(caller, pos, fn.f, nil)
		fn.done()
		return nil
	case Poison:
		unsupported("call of poisoned function value: %s", fn.Why)
	}
	panic(fmt.Sprintf("callValue: %T", fn))
}

func funcKey(fn *ssa.Function) string {
	if o := fn.Origin(); o != nil {
		return o.String()
	}
	return fn.String()
}

func (in *Interp) callFunction(caller *frame, pos token.Pos, fn *ssa.Function, args []Value, env []Value) Value {
	if in.p != nil {
		in.p.depth++
		if in.p.depth > 2000 {
			in.endPath("unwind", "call depth exceeded in "+fn.String())
		}
		defer func() { in.p.depth-- }()
	}
	key := funcKey(fn)
	if ic, ok := intercepts[key]; ok {
		if in.trace {
			fmt.Fprintf(os.Stderr, "%*sintercept %s\n", in.depth(), "", key)
		}
		return ic(in, caller, pos, fn, args)
	}
	if fn.Blocks == nil {
		if r, ok := in.interceptByPattern(caller, pos, fn, key, args); ok {
			return r
		}
		unsupported("function without body %s (called at %s)", key, in.posStr(pos))
	}
	if in.trace {
		fmt.Fprintf(os.Stderr, "%*scall %s\n", in.depth(), "", key)
	}
	return in.callSSA(caller, fn, args, env)
}

func (in *Interp) depth() int {
	if in.p == nil {
		return 0
	}
	return in.p.depth
}

// CallByName calls a package-level function of the program (used for utf8 helpers etc).
func (in *Interp) callPkgFunc(caller *frame, pkgPath, name string, args ...Value) Value {
	pkg := in.prog.ImportedPackage(pkgPath)
	if pkg == nil {
		unsupported("package %s not loaded", pkgPath)
	}
	fn := pkg.Func(name)
	if fn == nil {
		unsupported("function %s.%s not found", pkgPath, name)
	}
	return in.callFunction(caller, token.NoPos, fn, args, nil)
}

// ---------- instruction dispatch ----------

func (in *Interp) step(fr *frame, instr ssa.Instruction) {
	in.fnCount[fr.fn]++
	in.lastFn, in.lastInstr, in.lastFrame = fr.fn, instr, fr
	if in.p != nil && in.initing == 0 {
		in.p.steps++
		if in.p.steps > in.cfg.MaxSteps {
			in.endPath("unwind", fmt.Sprintf("step budget %d exceeded in %s at %s", in.cfg.MaxSteps, fr.fn, in.posStr(instr.Pos())))
		}
	}
}

func (in *Interp) visitInstr(fr *frame, instr ssa.Instruction) continuation {
	in.step(fr, instr)
	if in.trace {
		if v, ok := instr.(ssa.Value); ok {
			fmt.Fprintf(os.Stderr, "%*s  %s = %s\n", in.depth(), "", v.Name(), instr)
		} else {
			fmt.Fprintf(os.Stderr, "%*s  %s\n", in.depth(), "", instr)
		}
	}
	switch instr := instr.(type) {
	case *ssa.DebugRef:
	case *ssa.UnOp:
		fr.env[instr] = in.unop(fr, instr, fr.get(instr.X))
	case *ssa.BinOp:
		fr.env[instr] = in.binop(instr.Pos(), instr.Op, instr.X.Type(), instr.Y.Type(), fr.get(instr.X), fr.get(instr.Y))
	case *ssa.Call:
		fn, args := in.prepareCall(fr, &instr.Call)
		fr.env[instr] = in.callValue(fr, instr.Pos(), fn, args)
	case *ssa.ChangeInterface:
		fr.env[instr] = fr.get(instr.X)
	case *ssa.ChangeType:
		fr.env[instr] = fr.get(instr.X)
	case *ssa.Convert:
		fr.env[instr] = in.conv(fr, instr.Pos(), instr.Type(), instr.X.Type(), fr.get(instr.X))
	case *ssa.MultiConvert:
		fr.env[instr] = in.conv(fr, instr.Pos(), instr.Type(), instr.X.Type(), fr.get(instr.X))
	case *ssa.SliceToArrayPointer:
		s := fr.get(instr.X).(Slice)
		n := int(instr.Type().(*types.Pointer).Elem().Underlying().(*types.Array).Len())
		if len(s) < n {
			in.rtPanic(instr.Pos(), "cannot convert slice to array pointer: length too short")
		}
		if s == nil {
			fr.env[instr] = Ptr{}
		} else {
			fr.env[instr] = ArrayPtrOfSlice(s[:n:n])
		}
	case *ssa.MakeInterface:
		fr.env[instr] = Iface{T: instr.X.Type(), V: fr.get(instr.X)}
	case *ssa.Extract:
		tv := fr.get(instr.Tuple)
		if p, isP := tv.(Poison); isP {
			if fr.tolerant {
				fr.env[instr] = p
				break
			}
			unsupported("use of poisoned value: %s", p.Why)
		}
		fr.env[instr] = tv.(Tuple)[instr.Index]
	case *ssa.Slice:
		fr.env[instr] = in.slice(fr, instr)
	case *ssa.Return:
		switch len(instr.Results) {
		case 0:
		case 1:
			fr.result = fr.get(instr.Results[0])
		default:
			res := make(Tuple, len(instr.Results))
			for i, r := range instr.Results {
				res[i] = fr.get(r)
			}
			fr.result = res
		}
		fr.block = nil
		return kReturn
	case *ssa.RunDefers:
		in.runDefers(fr)
	case *ssa.Panic:
		v := fr.get(instr.X)
		panic(goPanic{v: v, msg: in.panicMsg(fr, v), pos: instr.Pos()})
	case *ssa.Send:
		in.chanSend(instr.Pos(), fr.get(instr.Chan), fr.get(instr.X))
	case *ssa.Store:
		in.store(instr.Pos(), instr.Val.Type(), fr.get(instr.Addr), fr.get(instr.Val))
	case *ssa.If:
		c := fr.get(instr.Cond)
		ct, ok := c.(*smt.Term)
		if !ok {
			if p, isP := c.(Poison); isP {
				unsupported("branch on poisoned value: %s", p.Why)
			}
			panic(fmt.Sprintf("If on %T", c))
		}
		succ := 1
		if in.branch(ct) {
			succ = 0
		}
		fr.prev, fr.block = fr.block, fr.block.Succs[succ]
		return kJump
	case *ssa.Jump:
		fr.prev, fr.block = fr.block, fr.block.Succs[0]
		return kJump
	case *ssa.Defer:
		fn, args := in.prepareCall(fr, &instr.Call)
		fr.defers = append(fr.defers, &deferred{fn: fn, args: args, instr: instr})
	case *ssa.Go:
		fn, args := in.prepareCall(fr, &instr.Call)
		in.goStart(fr, instr.Pos(), fn, args)
	case *ssa.MakeChan:
		n := in.concreteInt(fr.get(instr.Size), "chan size")
		fr.env[instr] = &Chan{Cap: n, ET: instr.Type().Underlying().(*types.Chan).Elem()}
	case *ssa.Alloc:
		c := new(Value)
		*c = in.zero(instr.Type().(*types.Pointer).Elem())
		// a re-executed Alloc of a local in a loop must give a fresh cell, which this does
		fr.env[instr] = Ptr{c}
	case *ssa.MakeSlice:
		l := in.concreteInt(fr.get(instr.Len), "make len")
		c := in.concreteInt(fr.get(instr.Cap), "make cap")
		if l < 0 || c < l {
			in.rtPanic(instr.Pos(), "makeslice: len out of range")
		}
		if c > 1<<22 {
			unsupported("makeslice cap %d", c)
		}
		et := instr.Type().Underlying().(*types.Slice).Elem()
		s := make(Slice, l, c)
		z := in.zero(et)
		for i := range s[:c] {
			s[:c][i] = copyVal(z)
		}
		fr.env[instr] = s
	case *ssa.MakeMap:
		mt := instr.Type().Underlying().(*types.Map)
		fr.env[instr] = &Map{KT: mt.Key(), VT: mt.Elem()}
	case *ssa.Range:
		fr.env[instr] = in.rangeIter(fr.get(instr.X))
	case *ssa.Next:
		fr.env[instr] = in.next(fr, instr, fr.get(instr.Iter).(*MapIter))
	case *ssa.FieldAddr:
		fr.env[instr] = in.fieldAddr(instr.Pos(), fr.get(instr.X), instr.Field)
	case *ssa.Field:
		x := fr.get(instr.X)
		st, ok := x.(Struct)
		if !ok {
			if p, isP := x.(Poison); isP {
				unsupported("field of poisoned value: %s", p.Why)
			}
			unsupported("Field on %T (%s)", x, instr.X.Type())
		}
		fr.env[instr] = copyVal(st[instr.Field])
	case *ssa.IndexAddr:
		fr.env[instr] = in.indexAddr(fr, instr)
	case *ssa.Index:
		fr.env[instr] = in.index(fr, instr)
	case *ssa.Lookup:
		fr.env[instr] = in.lookup(fr, instr)
	case *ssa.MapUpdate:
		m, ok := fr.get(instr.Map).(*Map)
		if !ok {
			unsupported("MapUpdate on %T", fr.get(instr.Map))
		}
		if m == nil {
			in.rtPanic(instr.Pos(), "assignment to entry in nil map")
		}
		in.mapSet(m, fr.get(instr.Key), copyVal(fr.get(instr.Value)))
	case *ssa.TypeAssert:
		fr.env[instr] = in.typeAssert(instr, fr.get(instr.X))
	case *ssa.MakeClosure:
		var bindings []Value
		for _, b := range instr.Bindings {
			bindings = append(bindings, fr.get(b))
		}
		fr.env[instr] = &Closure{Fn: instr.Fn.(*ssa.Function), Env: bindings}
	case *ssa.Phi:
		panic("unexpected phi")
	case *ssa.Select:
		fr.env[instr] = in.doSelect(fr, instr)
	default:
		unsupported("instruction %T", instr)
	}
	return kNext
}

func (in *Interp) panicMsg(fr *frame, v Value) string {
	if i, ok := v.(Iface); ok {
		if s, ok := i.V.(Str); ok {
			if s.IsConcrete() {
				return s.Concrete()
			}
			return "<symbolic string>"
		}
		if i.T != nil && types.Implements(i.T, in.errType.Underlying().(*types.Interface)) {
			// call Error()
			if f := in.findMethod(i.T, "Error"); f != nil {
				var msg string
				func() {
					defer func() {
						if r := recover(); r != nil {
							if _, ok := r.(pathEnd); ok {
								panic(r)
							}
							msg = "<error value>"
						}
					}()
					r := in.callFunction(fr, token.NoPos, f, []Value{i.V}, nil)
					if s, ok := r.(Str); ok && s.IsConcrete() {
						msg = s.Concrete()
					} else {
						msg = "<error value>"
					}
				}()
				return msg
			}
		}
		return fmt.Sprintf("panic value of type %v", i.T)
	}
	return "panic"
}

// ArrayPtrOfSlice builds a pointer to an array that aliases the slice's storage.
func ArrayPtrOfSlice(s Slice) Value {
	c := new(Value)
	*c = Array(s)
	return Ptr{c}
}

func (in *Interp) concreteInt(v Value, what string) int {
	t, ok := v.(*smt.Term)
	if !ok {
		if v == nil {
			return 0
		}
		unsupported("%s is %T", what, v)
	}
	if !t.IsConst() {
		// case split over the feasible values is the caller's job; here only a unique value is accepted
		unsupported("symbolic %s: %s", what, t)
	}
	return int(t.SignedVal())
}

// ---------- loads and stores ----------

func (in *Interp) journalCell(c *Value) {
	if in.initing == 0 && in.p != nil {
		in.journal = append(in.journal, undo{c: c, old: *c})
	}
}

func (in *Interp) rollback() {
	for i := len(in.journal) - 1; i >= 0; i-- {
		u := in.journal[i]
		if u.c != nil {
			*u.c = u.old
		} else {
			u.m.Entries = u.ent
		}
	}
	in.journal = in.journal[:0]
}

func (in *Interp) storeCell(c *Value, v Value) {
	switch dst := (*c).(type) {
	case Struct:
		src, ok := v.(Struct)
		if !ok || len(src) != len(dst) {
			in.journalCell(c)
			*c = v
			return
		}
		for i := range dst {
			in.storeCell(&dst[i], src[i])
		}
	case Array:
		src, ok := v.(Array)
		if !ok || len(src) != len(dst) {
			in.journalCell(c)
			*c = v
			return
		}
		for i := range dst {
			in.storeCell(&dst[i], src[i])
		}
	default:
		in.journalCell(c)
		*c = v
	}
}

func (in *Interp) store(pos token.Pos, t types.Type, addr Value, v Value) {
	switch p := addr.(type) {
	case Ptr:
		if p.C == nil {
			in.rtPanic(pos, "invalid memory address or nil pointer dereference (store)")
		}
		in.storeCell(p.C, v)
	case SymPtr:
		for k := range p.Elems {
			c := in.subCell(&p.Elems[k], p.Path)
			cond := in.tb.Eq(p.Idx, in.tb.BV(64, uint64(k)))
			if cond.IsFalse() {
				continue
			}
			nv, ok := in.iteVal(cond, v, *c)
			if !ok {
				unsupported("store through symbolic index of non-mergeable type %s", t)
			}
			in.storeCell(c, nv)
		}
	case Poison:
		unsupported("store through poisoned pointer: %s", p.Why)
	default:
		panic(fmt.Sprintf("store: addr %T", addr))
	}
}

func (in *Interp) subCell(c *Value, path []int) *Value {
	for _, f := range path {
		switch agg := (*c).(type) {
		case Struct:
			c = &agg[f]
		case Array:
			c = &agg[f]
		default:
			panic(fmt.Sprintf("subCell through %T", *c))
		}
	}
	return c
}

func (in *Interp) load(pos token.Pos, addr Value) Value {
	switch p := addr.(type) {
	case Ptr:
		if p.C == nil {
			in.rtPanic(pos, "invalid memory address or nil pointer dereference")
		}
		return copyVal(*p.C)
	case SymPtr:
		if r, ok := in.loadConstTable(p); ok {
			return r
		}
		var res Value
		first := true
		for k := len(p.Elems) - 1; k >= 0; k-- {
			cond := in.tb.Eq(p.Idx, in.tb.BV(64, uint64(k)))
			if cond.IsFalse() {
				continue
			}
			v := *in.subCell(&p.Elems[k], p.Path)
			if first {
				res = copyVal(v)
				first = false
				continue
			}
			nv, ok := in.iteVal(cond, v, res)
			if !ok {
				// fall back to a case split on the index
				return in.loadSplit(pos, p)
			}
			res = nv
		}
		if first {
			in.endPath("infeasible", "symbolic index with no feasible element")
		}
		return res
	case Poison:
		unsupported("load through poisoned pointer: %s", p.Why)
	}
	panic(fmt.Sprintf("load: addr %T", addr))
}

func (in *Interp) loadSplit(pos token.Pos, p SymPtr) Value {
	conds := make([]*smt.Term, len(p.Elems))
	for k := range p.Elems {
		conds[k] = in.tb.Eq(p.Idx, in.tb.BV(64, uint64(k)))
	}
	k := in.choose(conds)
	return copyVal(*in.subCell(&p.Elems[k], p.Path))
}

// iteVal merges two values under a condition; ok=false when they cannot be merged.
func (in *Interp) iteVal(c *smt.Term, a, b Value) (Value, bool) {
	if c.IsTrue() {
		return a, true
	}
	if c.IsFalse() {
		return b, true
	}
	switch x := a.(type) {
	case *smt.Term:
		y, ok := b.(*smt.Term)
		if !ok || x.W != y.W {
			return nil, false
		}
		return in.tb.Ite(c, x, y), true
	case Str:
		y, ok := b.(Str)
		if !ok || x.Len() != y.Len() || x.Opaque || y.Opaque {
			return nil, false
		}
		if x.B == nil && y.B == nil && x.S == y.S {
			return x, true
		}
		xb, yb := in.strBytes(x), in.strBytes(y)
		r := make([]*smt.Term, len(xb))
		for i := range xb {
			r[i] = in.tb.Ite(c, xb[i], yb[i])
		}
		return Str{B: r}, true
	case Struct:
		y, ok := b.(Struct)
		if !ok || len(x) != len(y) {
			return nil, false
		}
		r := make(Struct, len(x))
		for i := range x {
			v, ok := in.iteVal(c, x[i], y[i])
			if !ok {
				return nil, false
			}
			r[i] = v
		}
		return r, true
	case Array:
		y, ok := b.(Array)
		if !ok || len(x) != len(y) {
			return nil, false
		}
		r := make(Array, len(x))
		for i := range x {
			v, ok := in.iteVal(c, x[i], y[i])
			if !ok {
				return nil, false
			}
			r[i] = v
		}
		return r, true
	case Ptr:
		if y, ok := b.(Ptr); ok && x.C == y.C {
			return x, true
		}
	case Slice:
		if y, ok := b.(Slice); ok && len(x) == len(y) && cap(x) == cap(y) && (len(x) == 0 && (x == nil) == (y == nil) || len(x) > 0 && &x[0] == &y[0]) {
			return x, true
		}
	case Iface:
		if y, ok := b.(Iface); ok {
			if x.T == nil && y.T == nil {
				return x, true
			}
			if x.T != nil && y.T != nil && types.Identical(x.T, y.T) {
				v, ok := in.iteVal(c, x.V, y.V)
				if ok {
					return Iface{T: x.T, V: v}, true
				}
			}
		}
	case *Map:
		if y, ok := b.(*Map); ok && x == y {
			return x, true
		}
	case *Chan:
		if y, ok := b.(*Chan); ok && x == y {
			return x, true
		}
	case *Closure:
		if y, ok := b.(*Closure); ok && x == y {
			return x, true
		}
	}
	return nil, false
}

func (in *Interp) fieldAddr(pos token.Pos, x Value, field int) Value {
	switch p := x.(type) {
	case Ptr:
		if p.C == nil {
			in.rtPanic(pos, "invalid memory address or nil pointer dereference (field address)")
		}
		st, ok := (*p.C).(Struct)
		if !ok {
			unsupported("FieldAddr on cell holding %T", *p.C)
		}
		return Ptr{&st[field]}
	case SymPtr:
		np := SymPtr{Elems: p.Elems, Idx: p.Idx, Path: append(append([]int{}, p.Path...), field)}
		return np
	case Poison:
		unsupported("field address of poisoned pointer: %s", p.Why)
	}
	panic(fmt.Sprintf("fieldAddr on %T", x))
}

// boundsCheck forks on idx in [0,n) and returns a concrete index when idx is constant.
func (in *Interp) boundsCheck(pos token.Pos, idx *smt.Term, n int, signed bool) {
	idx64 := in.tb.Resize(idx, 64, signed)
	ok := in.tb.Cmp(smt.OpUlt, idx64, in.tb.BV(64, uint64(n)))
	if !in.branch(ok) {
		in.rtPanic(pos, fmt.Sprintf("index out of range [%s] with length %d", idx, n))
	}
}

func (in *Interp) elemPtr(pos token.Pos, elems []Value, idx *smt.Term, signed bool) Value {
	in.boundsCheck(pos, idx, len(elems), signed)
	if idx.IsConst() {
		return Ptr{&elems[int(idx.C)]}
	}
	return SymPtr{Elems: elems, Idx: in.tb.Resize(idx, 64, signed)}
}

func (in *Interp) indexAddr(fr *frame, instr *ssa.IndexAddr) Value {
	x := fr.get(instr.X)
	idx, ok := fr.get(instr.Index).(*smt.Term)
	if !ok {
		unsupported("IndexAddr index %T", fr.get(instr.Index))
	}
	_, signed, _, _ := scalarWidth(instr.Index.Type())
	switch x := x.(type) {
	case Slice:
		return in.elemPtr(instr.Pos(), x, idx, signed)
	case Ptr: // *array
		if x.C == nil {
			in.rtPanic(instr.Pos(), "invalid memory address or nil pointer dereference (index of nil array pointer)")
		}
		arr, ok := (*x.C).(Array)
		if !ok {
			unsupported("IndexAddr on cell holding %T", *x.C)
		}
		return in.elemPtr(instr.Pos(), arr, idx, signed)
	case SymPtr:
		// pointer to an array inside a symbolically indexed element
		unsupported("IndexAddr through symbolic pointer")
	case Poison:
		unsupported("index of poisoned value: %s", x.Why)
	}
	panic(fmt.Sprintf("indexAddr on %T", x))
}

func (in *Interp) index(fr *frame, instr *ssa.Index) Value {
	x := fr.get(instr.X)
	idx := fr.get(instr.Index).(*smt.Term)
	_, signed, _, _ := scalarWidth(instr.Index.Type())
	switch x := x.(type) {
	case Array:
		p := in.elemPtr(instr.Pos(), x, idx, signed)
		return in.load(instr.Pos(), p)
	case Str:
		return in.strIndex(instr.Pos(), x, idx, signed)
	}
	unsupported("Index on %T", x)
	return nil
}

func (in *Interp) strIndex(pos token.Pos, s Str, idx *smt.Term, signed bool) Value {
	if s.Opaque {
		unsupported("indexing an opaque formatted string")
	}
	in.boundsCheck(pos, idx, s.Len(), signed)
	if idx.IsConst() {
		if s.B != nil {
			return s.B[idx.C]
		}
		return in.tb.BV(8, uint64(s.S[idx.C]))
	}
	bs := in.strBytes(s)
	i64 := in.tb.Resize(idx, 64, signed)
	res := bs[len(bs)-1]
	for k := len(bs) - 2; k >= 0; k-- {
		res = in.tb.Ite(in.tb.Eq(i64, in.tb.BV(64, uint64(k))), bs[k], res)
	}
	return res
}

func (in *Interp) strBytes(s Str) []*smt.Term {
	if s.B != nil {
		return s.B
	}
	r := make([]*smt.Term, len(s.S))
	for i := 0; i < len(s.S); i++ {
		r[i] = in.tb.BV(8, uint64(s.S[i]))
	}
	return r
}

// ---------- slicing ----------

func (in *Interp) sliceBound(v Value, def int, what string, max int) int {
	if v == nil {
		return def
	}
	t := v.(*smt.Term)
	if t.IsConst() {
		return int(t.SignedVal())
	}
	// case split over 0..max (values outside make the bounds check fail: represented by max+1)
	conds := make([]*smt.Term, 0, max+2)
	t64 := in.tb.Resize(t, 64, true)
	for k := 0; k <= max; k++ {
		conds = append(conds, in.tb.Eq(t64, in.tb.BV(64, uint64(k))))
	}
	conds = append(conds, in.tb.Cmp(smt.OpUlt, in.tb.BV(64, uint64(max)), t64))
	k := in.choose(conds)
	if k == max+1 {
		return -1
	}
	return k
}

func (in *Interp) slice(fr *frame, instr *ssa.Slice) Value {
	x := fr.get(instr.X)
	lo, hi, mx := fr.get(instr.Low), fr.get(instr.High), fr.get(instr.Max)
	switch x := x.(type) {
	case Str:
		if x.Opaque {
			unsupported("slicing an opaque formatted string")
		}
		n := x.Len()
		l := in.sliceBound(lo, 0, "low", n)
		h := in.sliceBound(hi, n, "high", n)
		if l < 0 || h < 0 || h > n || l > h {
			in.rtPanic(instr.Pos(), fmt.Sprintf("slice bounds out of range [%d:%d] with length %d", l, h, n))
		}
		if x.B != nil {
			if l == h {
				return Str{}
			}
			return Str{B: x.B[l:h]}
		}
		return Str{S: x.S[l:h]}
	case Slice:
		c := cap(x)
		l := in.sliceBound(lo, 0, "low", c)
		h := in.sliceBound(hi, len(x), "high", c)
		m := in.sliceBound(mx, c, "max", c)
		if l < 0 || h < 0 || m < 0 || m > c || h > m || l > h {
			in.rtPanic(instr.Pos(), fmt.Sprintf("slice bounds out of range [%d:%d:%d] with capacity %d", l, h, m, c))
		}
		if x == nil {
			return Slice(nil)
		}
		return x[l:h:m]
	case Ptr: // *array
		if x.C == nil {
			in.rtPanic(instr.Pos(), "nil pointer dereference (slice of nil array pointer)")
		}
		arr := (*x.C).(Array)
		c := len(arr)
		l := in.sliceBound(lo, 0, "low", c)
		h := in.sliceBound(hi, c, "high", c)
		m := in.sliceBound(mx, c, "max", c)
		if l < 0 || h < 0 || m < 0 || m > c || h > m || l > h {
			in.rtPanic(instr.Pos(), fmt.Sprintf("slice bounds out of range [%d:%d:%d] with capacity %d", l, h, m, c))
		}
		return Slice(arr)[l:h:m]
	case Poison:
		unsupported("slice of poisoned value: %s", x.Why)
	}
	panic(fmt.Sprintf("slice of %T", x))
}

// ---------- type assertions ----------

func (in *Interp) typeAssert(instr *ssa.TypeAssert, x Value) Value {
	itf, ok := x.(Iface)
	if !ok {
		if p, isP := x.(Poison); isP {
			unsupported("type assertion on poisoned value: %s", p.Why)
		}
		panic(fmt.Sprintf("typeAssert on %T", x))
	}
	var v Value
	good := false
	if idst, isI := instr.AssertedType.Underlying().(*types.Interface); isI {
		if itf.T != nil && in.implements(itf.T, idst) {
			v, good = itf, true
		}
	} else if itf.T != nil && types.Identical(itf.T, instr.AssertedType) {
		v, good = itf.V, true
	}
	if instr.CommaOk {
		if !good {
			v = in.zero(instr.AssertedType)
		}
		return Tuple{copyVal(v), in.tb.Bool(good)}
	}
	if !good {
		msg := fmt.Sprintf("interface conversion: interface is %v, not %v", itf.T, instr.AssertedType)
		panic(in.goPanicStr(instr.Pos(), msg))
	}
	return copyVal(v)
}

func (in *Interp) implements(t types.Type, i *types.Interface) bool {
	if _, ok := t.(RTypeMarker); ok {
		return false
	}
	return types.Implements(t, i)
}

// RTypeMarker is never produced; placeholder for special dynamic types.
type RTypeMarker interface {
	types.Type
	marker()
}

// ---------- goroutines ----------

func (in *Interp) goStart(fr *frame, pos token.Pos, fn Value, args []Value) {
	p := in.p
	if p == nil || in.initing > 0 {
		unsupported("go statement during initialisation")
	}
	g := &G{id: len(p.gs), wake: make(chan struct{}, 1), status: gRunnable}
	p.gs = append(p.gs, g)
	p.wg.Add(1)
	go func() {
		defer p.wg.Done()
		<-g.wake
		if p.dead {
			return
		}
		defer func() {
			r := recover()
			if r == nil {
				return
			}
			if pe, ok := r.(pathEnd); ok && pe.kind == "killed" {
				return
			}
			// the path ends here: record and wake the main goroutine so that it unwinds
			p.finish(in, r)
			p.dead = true
			p.gs[0].wake <- struct{}{}
		}()
		g.status = gRunning
		in.callValue(nil, pos, fn, args)
		g.status = gDone
		in.handOff(g)
	}()
}

// handOff passes the baton from a finished goroutine.
func (in *Interp) handOff(g *G) {
	next := in.pickNext(g)
	if next == nil {
		in.sink.count("deadlock-detail: "+in.blockedSummary(), 1)
		in.endPath("deadlock", "all goroutines are blocked (a goroutine finished, none runnable)")
	}
	in.cur = next
	next.wake <- struct{}{}
}

func (in *Interp) pickNext(g *G) *G {
	p := in.p
	n := len(p.gs)
	for i := 1; i <= n; i++ {
		c := p.gs[(g.id+i)%n]
		if c == g && g.status != gBlocked {
			continue
		}
		switch c.status {
		case gRunnable:
			return c
		case gBlocked:
			if c.ready() {
				return c
			}
		}
	}
	return nil
}

// block suspends the current goroutine until ready() holds.
func (in *Interp) block(ready func() bool) {
	if ready() {
		return
	}
	p := in.p
	if p == nil || in.initing > 0 {
		unsupported("blocking operation during initialisation")
	}
	g := in.cur
	if in.lastFn != nil && in.lastInstr != nil {
		g.where = in.lastFn.String() + " at " + in.posStr(in.lastInstr.Pos())
	}
	for !ready() {
		g.ready = ready
		g.status = gBlocked
		next := in.pickNext(g)
		if next == nil {
			in.sink.count("deadlock-detail: "+in.blockedSummary(), 1)
			in.endPath("deadlock", "all goroutines are blocked")
		}
		if next == g {
			break
		}
		in.cur = next
		next.wake <- struct{}{}
		<-g.wake
		if p.dead {
			panic(pathEnd{kind: "killed"})
		}
		in.cur = g
	}
	g.status = gRunning
}

func (in *Interp) blockedSummary() string {
	var parts []string
	for _, g := range in.p.gs {
		if g.status == gBlocked {
			parts = append(parts, fmt.Sprintf("g%d: %s", g.id, g.where))
		}
	}
	return strings.Join(parts, " | ")
}

// yield lets other runnable goroutines run (used at synchronisation points).
func (in *Interp) yield() {
	p := in.p
	if p == nil || len(p.gs) < 2 || in.initing > 0 {
		return
	}
	g := in.cur
	g.status = gRunnable
	next := in.pickNext(g)
	if next == nil || next == g {
		g.status = gRunning
		return
	}
	in.cur = next
	next.wake <- struct{}{}
	<-g.wake
	if p.dead {
		panic(pathEnd{kind: "killed"})
	}
	in.cur = g
	g.status = gRunning
}

// ---------- path driver ----------

type pathState struct {
	prefix    []int
	pos       int
	decisions []int
	pc        []*smt.Term
	pcSent    int
	model     map[string]uint64
	nondets   []NondetRec
	seqs      map[string]int
	newWork   [][]int
	steps     int
	depth     int
	gs        []*G
	wg        sync.WaitGroup
	dead      bool
	end       pathEnd
	endSet    bool
	errUnsup  string
	bug       string
	sync      map[any]any // side tables for sync primitives, keyed by cell pointer
	notes     []string
	unknowns  int
	reset     bool
	lastModel map[string]uint64
	endNondet []NondetRec
	lastNow   *smt.Term
	clock     int64
}

type NondetRec struct {
	Label string `json:"label"`
	Seq   int    `json:"seq"`
	Kind  string `json:"kind"`
	W     int    `json:"w"`
	Name  string `json:"-"`
	Value uint64 `json:"value"`
}

func (p *pathState) finish(in *Interp, r any) {
	if p.endSet {
		return
	}
	p.endSet = true
	switch e := r.(type) {
	case pathEnd:
		p.end = e
	case Unsupported:
		msg := e.Msg
		if in.lastFn != nil && in.lastInstr != nil {
			msg += " [in " + in.lastFn.String() + " at " + in.posStr(in.lastInstr.Pos())
			n := 0
			for f := in.lastFrame; f != nil && n < 6; f = f.caller {
				if f.fn != in.lastFn && !strings.HasPrefix(f.fn.String(), "syscall.") && !strings.HasPrefix(f.fn.String(), "os.") && !strings.HasPrefix(f.fn.String(), "(*os.") {
					msg += " < " + f.fn.String()
					n++
				}
			}
			msg += "]"
		}
		p.end = pathEnd{kind: "unsupported", msg: msg}
	case goPanic:
		p.end = pathEnd{kind: "panic", msg: e.msg + " @" + in.posStr(e.pos)}
	default:
		p.end = pathEnd{kind: "bug", msg: fmt.Sprintf("%v\n%s", r, debug.Stack())}
	}
}

func (in *Interp) endPath(kind, msg string) {
	panic(pathEnd{kind: kind, msg: msg})
}

// RunPath executes the harness entry along the decision prefix and returns the path outcome.
func (in *Interp) RunPath(entry *ssa.Function, prefix []int, sink *Sink) *pathState {
	p := &pathState{prefix: prefix, seqs: map[string]int{}, sync: map[any]any{}}
	in.p = p
	in.sink = sink
	g0 := &G{id: 0, wake: make(chan struct{}, 1), status: gRunning}
	p.gs = []*G{g0}
	in.cur = g0
	func() {
		defer func() {
			if r := recover(); r != nil {
				if pe, ok := r.(pathEnd); ok && pe.kind == "killed" {
					return
				}
				p.finish(in, r)
			}
		}()
		in.callFunction(nil, token.NoPos, entry, nil, nil)
		p.finish(in, pathEnd{kind: "done"})
	}()
	switch p.end.kind {
	case "panic", "deadlock", "unwind":
		// values of the inputs that drive execution down this path
		func() {
			defer func() { recover() }()
			in.cur = g0
			m, r := in.currentModel(in.tb.True)
			if r == smt.Sat || r == smt.Unknown {
				for _, n := range p.nondets {
					n.Value = m[n.Name]
					p.endNondet = append(p.endNondet, n)
				}
			}
		}()
	}
	// stop every other goroutine
	p.dead = true
	for _, g := range p.gs[1:] {
		if g.status != gDone {
			select {
			case g.wake <- struct{}{}:
			default:
			}
		}
	}
	p.wg.Wait()
	in.rollback()
	in.p = nil
	return p
}
