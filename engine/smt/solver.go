package smt

import (
	"bufio"
	"fmt"
	"io"
	"os"
	"os/exec"
	"regexp"
	"strconv"
	"strings"
	"time"
)

type Result int

const (
	Unsat Result = iota
	Sat
	Unknown
)

func (r Result) String() string { return [...]string{"unsat", "sat", "unknown"}[r] }

type Stats struct {
	Queries, Sat, Unsat, Unknown int
	Errors                       int
	Seconds                      float64
	MaxSeconds                   float64
}

func (s *Stats) Add(o Stats) {
	s.Queries += o.Queries
	s.Sat += o.Sat
	s.Unsat += o.Unsat
	s.Unknown += o.Unknown
	s.Errors += o.Errors
	s.Seconds += o.Seconds
	if o.MaxSeconds > s.MaxSeconds {
		s.MaxSeconds = o.MaxSeconds
	}
}

// Solver is one live SMT-LIB2 solver process (z3 -in or cvc5 --incremental).
type Solver struct {
	Name      string
	args      []string
	cmd       *exec.Cmd
	in        io.WriteCloser
	out       *bufio.Reader
	pr        *Printer
	TimeoutMS int
	Stats     Stats
	Log       io.Writer
	LastError string
	nmark     int
}

// Backends known on this image.
func BackendArgs(name string) []string {
	switch name {
	case "z3":
		return []string{"/usr/bin/z3", "-in", "-smt2"}
	case "z3-new":
		return []string{"z3-new", "-in", "-smt2"}
	case "cvc5":
		return []string{"cvc5", "--incremental", "--lang=smt2", "--produce-models", "--fp-exp"}
	}
	return nil
}

func NewSolver(name string, timeoutMS int) (*Solver, error) {
	s := &Solver{Name: name, args: BackendArgs(name), pr: NewPrinter(), TimeoutMS: timeoutMS}
	if s.args == nil {
		return nil, fmt.Errorf("unknown solver %q", name)
	}
	if name == "cvc5" {
		s.args = append(s.args, fmt.Sprintf("--tlimit-per=%d", timeoutMS))
	}
	if err := s.start(); err != nil {
		return nil, err
	}
	return s, nil
}

func (s *Solver) start() error {
	s.cmd = exec.Command(s.args[0], s.args[1:]...)
	in, err := s.cmd.StdinPipe()
	if err != nil {
		return err
	}
	out, err := s.cmd.StdoutPipe()
	if err != nil {
		return err
	}
	s.cmd.Stderr = os.Stderr
	if err := s.cmd.Start(); err != nil {
		return err
	}
	s.in, s.out = in, bufio.NewReaderSize(out, 1<<16)
	s.pr.Reset()
	s.prelude()
	return nil
}

func (s *Solver) prelude() {
	switch s.Name {
	case "cvc5":
		s.send("(set-logic ALL)\n")
	default:
		s.send(fmt.Sprintf("(set-option :timeout %d)\n", s.TimeoutMS))
	}
}

func (s *Solver) Close() {
	if s.cmd != nil {
		s.in.Close()
		s.cmd.Process.Kill()
		s.cmd.Wait()
		s.cmd = nil
	}
}

func (s *Solver) restart() {
	s.Close()
	if err := s.start(); err != nil {
		panic(err)
	}
}

func (s *Solver) send(str string) {
	if s.Log != nil {
		io.WriteString(s.Log, str)
	}
	if _, err := io.WriteString(s.in, str); err != nil {
		s.LastError = "write: " + err.Error()
	}
}

// Reset forgets all assertions and definitions.
func (s *Solver) Reset() {
	if s.Name == "cvc5" {
		// cvc5 (reset) is slow-ish but supported; restart is the robust route
		s.restart()
		return
	}
	s.send("(reset)\n")
	s.pr.Reset()
	s.prelude()
}

// Assert adds t permanently (until Reset).
func (s *Solver) Assert(t *Term) {
	if t.IsTrue() {
		return
	}
	var sb strings.Builder
	r := s.pr.Define(&sb, t)
	fmt.Fprintf(&sb, "(assert %s)\n", r)
	s.send(sb.String())
}

var valRe = regexp.MustCompile(`\(\s*(\|[^|]*\||[^\s()]+)\s+(#x[0-9a-fA-F]+|#b[01]+|true|false)\s*\)`)

// Check asks whether the permanent assertions plus extra are satisfiable. If vars is non-empty and
// the answer is sat, the model values of vars are returned.
func (s *Solver) Check(extra *Term, vars []*Term) (Result, map[string]uint64) {
	t0 := time.Now()
	var sb strings.Builder
	er := s.pr.Define(&sb, extra)
	for _, v := range vars {
		s.pr.Define(&sb, v)
	}
	s.nmark++
	mark := fmt.Sprintf("@C%d", s.nmark)
	fmt.Fprintf(&sb, "(push 1)\n(assert %s)\n(check-sat)\n(echo \"%s\")\n", er, mark)
	s.send(sb.String())
	lines, ok := s.readUntil(mark)
	res := Unknown
	bad := !ok
	for _, l := range lines {
		switch {
		case l == "sat":
			res = Sat
		case l == "unsat":
			res = Unsat
		case l == "unknown" || strings.HasPrefix(l, "timeout"):
			res = Unknown
		case strings.Contains(l, "(error"):
			bad = true
			s.LastError = l
		}
	}
	if bad {
		res = Unknown
		s.Stats.Errors++
	}
	var model map[string]uint64
	if res == Sat && len(vars) > 0 && !bad {
		var vb strings.Builder
		vb.WriteString("(get-value (")
		for _, v := range vars {
			vb.WriteString(ref(v))
			vb.WriteByte(' ')
		}
		s.nmark++
		vmark := fmt.Sprintf("@V%d", s.nmark)
		fmt.Fprintf(&vb, "))\n(echo \"%s\")\n", vmark)
		s.send(vb.String())
		vlines, ok2 := s.readUntil(vmark)
		model = map[string]uint64{}
		txt := strings.Join(vlines, " ")
		if !ok2 || strings.Contains(txt, "(error") {
			s.LastError = txt
			s.Stats.Errors++
			res = Unknown
		}
		for _, m := range valRe.FindAllStringSubmatch(txt, -1) {
			name := strings.Trim(m[1], "|")
			var v uint64
			switch {
			case m[2] == "true":
				v = 1
			case m[2] == "false":
				v = 0
			case strings.HasPrefix(m[2], "#x"):
				v, _ = strconv.ParseUint(m[2][2:], 16, 64)
			default:
				v, _ = strconv.ParseUint(m[2][2:], 2, 64)
			}
			model[name] = v
		}
	}
	if !ok {
		// the process died or desynchronised: start afresh (assertions are lost; caller treats Unknown as inconclusive)
		s.restart()
	} else {
		s.send("(pop 1)\n")
	}
	dt := time.Since(t0).Seconds()
	s.Stats.Queries++
	s.Stats.Seconds += dt
	if dt > s.Stats.MaxSeconds {
		s.Stats.MaxSeconds = dt
	}
	switch res {
	case Sat:
		s.Stats.Sat++
	case Unsat:
		s.Stats.Unsat++
	default:
		s.Stats.Unknown++
	}
	return res, model
}

func (s *Solver) readUntil(mark string) ([]string, bool) {
	var lines []string
	deadline := time.Duration(s.TimeoutMS)*time.Millisecond*3 + 30*time.Second
	type rl struct {
		l   string
		err error
	}
	for {
		ch := make(chan rl, 1)
		go func() {
			l, err := s.out.ReadString('\n')
			ch <- rl{l, err}
		}()
		select {
		case r := <-ch:
			if r.err != nil {
				s.LastError = "read: " + r.err.Error()
				return lines, false
			}
			l := strings.TrimSpace(r.l)
			if s.Log != nil {
				fmt.Fprintf(s.Log, "; <- %s\n", l)
			}
			if strings.Contains(l, mark) {
				return lines, true
			}
			if l != "" {
				lines = append(lines, l)
			}
		case <-time.After(deadline):
			s.LastError = "solver response deadline exceeded"
			s.cmd.Process.Kill()
			<-ch
			return lines, false
		}
	}
}

// OneShot runs a complete script (used for cross-checking final queries with other backends).
func OneShot(backend string, timeoutMS int, asserts []*Term) (Result, string) {
	s, err := NewSolver(backend, timeoutMS)
	if err != nil {
		return Unknown, err.Error()
	}
	defer s.Close()
	for _, a := range asserts[:len(asserts)-1] {
		s.Assert(a)
	}
	r, _ := s.Check(asserts[len(asserts)-1], nil)
	return r, s.LastError
}
