package smt

import (
	"math"
	"math/rand"
	"testing"
)

// The three semantics a term has in the engine must agree: constant folding in the builders, Eval
// under a model (used for the feasibility shortcut and for replay), and the solver's reading of the
// printed SMT-LIB2 text. For random operand values: fold(op, x, y) == Eval(op(vx, vy), {vx:x, vy:y})
// and the solver finds "op(vx,vy) != folded ∧ vx = x ∧ vy = y" unsat.

type binCase struct {
	name string
	mk   func(tb *Table, a, b *Term) *Term
}

func interesting(r *rand.Rand, w int) uint64 {
	m := mask(w)
	switch r.Intn(8) {
	case 0:
		return 0
	case 1:
		return m
	case 2:
		return 1
	case 3:
		return (uint64(1) << (w - 1)) & m // min signed
	case 4:
		return ((uint64(1) << (w - 1)) - 1) & m
	case 5:
		return uint64(r.Intn(70)) & m // shift amounts around the width
	default:
		return r.Uint64() & m
	}
}

func TestFoldEvalSolverAgree(t *testing.T) {
	ops := []binCase{}
	for _, op := range []Op{OpAdd, OpSub, OpMul, OpUDiv, OpSDiv, OpURem, OpSRem, OpBAnd, OpBOr, OpBXor, OpShl, OpLShr, OpAShr} {
		op := op
		ops = append(ops, binCase{opNames[op], func(tb *Table, a, b *Term) *Term { return tb.Bin(op, a, b) }})
	}
	for _, op := range []Op{OpUlt, OpUle, OpSlt, OpSle} {
		op := op
		ops = append(ops, binCase{opNames[op], func(tb *Table, a, b *Term) *Term { return tb.Cmp(op, a, b) }})
	}
	ops = append(ops,
		binCase{"eq", func(tb *Table, a, b *Term) *Term { return tb.Eq(a, b) }},
		binCase{"concat-extract", func(tb *Table, a, b *Term) *Term {
			if a.W > 32 {
				return tb.Bin(OpSub, a, b)
			}
			c := tb.Concat(a, b)
			return tb.Extract(c, a.W+b.W/2, b.W/2)
		}},
		binCase{"zext-sext", func(tb *Table, a, b *Term) *Term {
			if a.W >= 64 {
				return tb.Bin(OpBXor, a, b)
			}
			return tb.Bin(OpBXor, tb.ZExt(a, 64), tb.SExt(b, 64))
		}},
		binCase{"ite", func(tb *Table, a, b *Term) *Term { return tb.Ite(tb.Cmp(OpSlt, a, b), tb.Neg(a), tb.BNot(b)) }},
		binCase{"popcount", func(tb *Table, a, b *Term) *Term {
			if a.W != 64 {
				return tb.Bin(OpAdd, a, b)
			}
			return tb.Bin(OpAdd, tb.Popcount(a), b)
		}},
	)
	r := rand.New(rand.NewSource(1))
	sol, err := NewSolver("z3", 20000)
	if err != nil {
		t.Skip("no solver:", err)
	}
	defer sol.Close()
	n := 0
	for _, w := range []int{8, 16, 32, 64} {
		for _, oc := range ops {
			for k := 0; k < 6; k++ {
				tb := NewTable()
				x, y := interesting(r, w), interesting(r, w)
				folded := oc.mk(tb, tb.BV(w, x), tb.BV(w, y))
				if !folded.IsConst() {
					t.Fatalf("%s/%d: constants do not fold: %s", oc.name, w, folded)
				}
				vx, vy := tb.Var("x", w), tb.Var("y", w)
				sym := oc.mk(tb, vx, vy)
				got := Eval(sym, map[string]uint64{"x": x, "y": y}, map[int]uint64{})
				if got != folded.C {
					t.Errorf("%s/%d x=%#x y=%#x: fold=%#x eval=%#x", oc.name, w, x, y, folded.C, got)
				}
				sol.Reset()
				sol.Assert(tb.Eq(vx, tb.BV(w, x)))
				sol.Assert(tb.Eq(vy, tb.BV(w, y)))
				var ne *Term
				if sym.W == 0 {
					ne = tb.Not(tb.Eq(sym, tb.Bool(folded.C == 1)))
				} else {
					ne = tb.Not(tb.Eq(sym, tb.BV(sym.W, folded.C)))
				}
				res, _ := sol.Check(ne, []*Term{vx, vy})
				if res != Unsat {
					t.Errorf("%s/%d x=%#x y=%#x: solver disagrees with fold %#x (%v)", oc.name, w, x, y, folded.C, res)
				}
				n++
			}
		}
	}
	t.Logf("%d operator instances agreed across fold / Eval / z3", n)
}

func TestFloatFoldEvalSolverAgree(t *testing.T) {
	vals := []float64{0, math.Copysign(0, -1), 1, -1, 0.1, 1e-6, 2e-6, 180, -180, 360, 4294967295.0 / 360, math.MaxFloat64, math.SmallestNonzeroFloat64, math.Inf(1), math.Inf(-1), math.NaN(), 12345.678, -9.75}
	sol, err := NewSolver("z3", 30000)
	if err != nil {
		t.Skip("no solver:", err)
	}
	defer sol.Close()
	r := rand.New(rand.NewSource(2))
	n := 0
	for k := 0; k < 40; k++ {
		tb := NewTable()
		x, y := vals[r.Intn(len(vals))], vals[r.Intn(len(vals))]
		bx, by := math.Float64bits(x), math.Float64bits(y)
		vx, vy := tb.Var("x", 64), tb.Var("y", 64)
		mks := []func(a, b *Term) *Term{
			func(a, b *Term) *Term { return tb.FBin(OpFAdd, a, b) },
			func(a, b *Term) *Term { return tb.FBin(OpFSub, a, b) },
			func(a, b *Term) *Term { return tb.FBin(OpFMul, a, b) },
			func(a, b *Term) *Term { return tb.FCmp(OpFLt, a, b) },
			func(a, b *Term) *Term { return tb.FCmp(OpFLe, a, b) },
			func(a, b *Term) *Term { return tb.FCmp(OpFEq, a, b) },
			func(a, b *Term) *Term { return tb.FIsNaN(a) },
			func(a, b *Term) *Term { return tb.FToF(tb.FToF(a, 32), 64) },
		}
		for i, mk := range mks {
			folded := mk(tb.BV(64, bx), tb.BV(64, by))
			if !folded.IsConst() {
				t.Fatalf("float op %d does not fold", i)
			}
			sym := mk(vx, vy)
			got := Eval(sym, map[string]uint64{"x": bx, "y": by}, map[int]uint64{})
			// NaN payloads may differ: compare as NaN
			same := got == folded.C
			if sym.W == 64 && math.IsNaN(math.Float64frombits(got)) && math.IsNaN(math.Float64frombits(folded.C)) {
				same = true
			}
			if !same {
				t.Errorf("float op %d x=%v y=%v: fold=%#x eval=%#x", i, x, y, folded.C, got)
			}
			if sym.W == 64 && math.IsNaN(math.Float64frombits(folded.C)) {
				continue // the solver's NaN has no fixed payload
			}
			sol.Reset()
			sol.Assert(tb.Eq(vx, tb.BV(64, bx)))
			sol.Assert(tb.Eq(vy, tb.BV(64, by)))
			var ne *Term
			if sym.W == 0 {
				ne = tb.Not(tb.Eq(sym, tb.Bool(folded.C == 1)))
			} else {
				ne = tb.Not(tb.Eq(sym, tb.BV(64, folded.C)))
			}
			res, _ := sol.Check(ne, []*Term{vx, vy})
			if res != Unsat {
				t.Errorf("float op %d x=%v y=%v: solver disagrees with fold %#x (%v)", i, x, y, folded.C, res)
			}
			n++
		}
	}
	t.Logf("%d float operator instances agreed across fold / Eval / z3", n)
}
