// Package smt: hash-consed bit-vector / bool / IEEE terms with constant folding,
// an SMT-LIB2 printer and an evaluator.
package smt

import (
	"fmt"
	"math"
	"math/bits"
	"strings"
)

type Op uint8

const (
	OpConst Op = iota
	OpVar
	OpNot
	OpAnd
	OpOr
	OpIte
	OpEq
	OpAdd
	OpSub
	OpMul
	OpUDiv
	OpSDiv
	OpURem
	OpSRem
	OpBAnd
	OpBOr
	OpBXor
	OpBNot
	OpNeg
	OpShl
	OpLShr
	OpAShr
	OpUlt
	OpUle
	OpSlt
	OpSle
	OpConcat
	OpExtract // P = hi<<8|lo
	OpZExt    // result width W
	OpSExt
	// floating point on bit-vector carriers (W = 32 or 64 of the operands)
	OpFLt
	OpFLe
	OpFEq
	OpFIsNaN
	OpFAdd
	OpFSub
	OpFMul
	OpFDiv
	OpFSqrt
	OpFToSBV // float carrier (arg width) -> signed bv of width W, RTZ
	OpFToUBV
	OpSBVToF // signed bv -> float carrier of width W, RNE
	OpUBVToF
	OpFToF // float carrier -> float carrier of width W
	OpUF   // uninterpreted function Name(args) of width W
)

var opNames = map[Op]string{
	OpNot: "not", OpAnd: "and", OpOr: "or", OpIte: "ite", OpEq: "=",
	OpAdd: "bvadd", OpSub: "bvsub", OpMul: "bvmul", OpUDiv: "bvudiv", OpSDiv: "bvsdiv",
	OpURem: "bvurem", OpSRem: "bvsrem", OpBAnd: "bvand", OpBOr: "bvor", OpBXor: "bvxor",
	OpBNot: "bvnot", OpNeg: "bvneg", OpShl: "bvshl", OpLShr: "bvlshr", OpAShr: "bvashr",
	OpUlt: "bvult", OpUle: "bvule", OpSlt: "bvslt", OpSle: "bvsle", OpConcat: "concat",
}

// Term is an immutable hash-consed node. W == 0 means Bool, otherwise BV(W).
type Term struct {
	ID   int
	Op   Op
	W    int
	C    uint64 // constant value (Bool: 0/1) or op parameter
	Name string
	Args []*Term
}

func (t *Term) IsConst() bool { return t.Op == OpConst }
func (t *Term) IsBool() bool  { return t.W == 0 }
func (t *Term) IsTrue() bool  { return t.Op == OpConst && t.W == 0 && t.C == 1 }
func (t *Term) IsFalse() bool { return t.Op == OpConst && t.W == 0 && t.C == 0 }

type key struct {
	op         Op
	w          int
	c          uint64
	name       string
	a0, a1, a2 int
	n          int
}

// Table owns terms. Not safe for concurrent use (one per worker).
type Table struct {
	m     map[key]*Term
	extra map[string]*Term // for terms with >3 args
	next  int
	Vars  []*Term
	True  *Term
	False *Term
}

func NewTable() *Table {
	tb := &Table{m: map[key]*Term{}, extra: map[string]*Term{}}
	tb.False = tb.mk(OpConst, 0, 0, "")
	tb.True = tb.mk(OpConst, 0, 1, "")
	return tb
}

func (tb *Table) NumTerms() int { return tb.next }

func (tb *Table) mk(op Op, w int, c uint64, name string, args ...*Term) *Term {
	if len(args) > 3 {
		var sb strings.Builder
		fmt.Fprintf(&sb, "%d|%d|%d|%s", op, w, c, name)
		for _, a := range args {
			fmt.Fprintf(&sb, "|%d", a.ID)
		}
		k := sb.String()
		if t, ok := tb.extra[k]; ok {
			return t
		}
		t := &Term{ID: tb.next, Op: op, W: w, C: c, Name: name, Args: args}
		tb.next++
		tb.extra[k] = t
		return t
	}
	k := key{op: op, w: w, c: c, name: name, n: len(args), a0: -1, a1: -1, a2: -1}
	if len(args) > 0 {
		k.a0 = args[0].ID
	}
	if len(args) > 1 {
		k.a1 = args[1].ID
	}
	if len(args) > 2 {
		k.a2 = args[2].ID
	}
	if t, ok := tb.m[k]; ok {
		return t
	}
	t := &Term{ID: tb.next, Op: op, W: w, C: c, Name: name, Args: args}
	tb.next++
	tb.m[k] = t
	return t
}

func mask(w int) uint64 {
	if w >= 64 {
		return ^uint64(0)
	}
	return (uint64(1) << uint(w)) - 1
}

func sext(c uint64, w int) int64 {
	if w >= 64 {
		return int64(c)
	}
	sh := uint(64 - w)
	return int64(c<<sh) >> sh
}

// SignedVal returns the constant as a signed integer.
func (t *Term) SignedVal() int64 { return sext(t.C, t.W) }

func (tb *Table) Bool(b bool) *Term {
	if b {
		return tb.True
	}
	return tb.False
}

func (tb *Table) BV(w int, c uint64) *Term {
	if w <= 0 || w > 64 {
		panic(fmt.Sprintf("smt: bad width %d", w))
	}
	return tb.mk(OpConst, w, c&mask(w), "")
}

func (tb *Table) Var(name string, w int) *Term {
	k := key{op: OpVar, w: w, name: name, a0: -1, a1: -1, a2: -1}
	if t, ok := tb.m[k]; ok {
		return t
	}
	t := tb.mk(OpVar, w, 0, name)
	tb.Vars = append(tb.Vars, t)
	return t
}

func (tb *Table) Not(a *Term) *Term {
	if a.W != 0 {
		panic("smt: Not on non-bool")
	}
	if a.IsConst() {
		return tb.Bool(a.C == 0)
	}
	if a.Op == OpNot {
		return a.Args[0]
	}
	return tb.mk(OpNot, 0, 0, "", a)
}

func (tb *Table) And(a, b *Term) *Term {
	if a.W != 0 || b.W != 0 {
		panic("smt: And on non-bool")
	}
	if a.IsFalse() || b.IsFalse() {
		return tb.False
	}
	if a.IsTrue() {
		return b
	}
	if b.IsTrue() {
		return a
	}
	if a == b {
		return a
	}
	if (a.Op == OpNot && a.Args[0] == b) || (b.Op == OpNot && b.Args[0] == a) {
		return tb.False
	}
	if a.ID > b.ID {
		a, b = b, a
	}
	return tb.mk(OpAnd, 0, 0, "", a, b)
}

func (tb *Table) Or(a, b *Term) *Term {
	if a.W != 0 || b.W != 0 {
		panic("smt: Or on non-bool")
	}
	if a.IsTrue() || b.IsTrue() {
		return tb.True
	}
	if a.IsFalse() {
		return b
	}
	if b.IsFalse() {
		return a
	}
	if a == b {
		return a
	}
	if (a.Op == OpNot && a.Args[0] == b) || (b.Op == OpNot && b.Args[0] == a) {
		return tb.True
	}
	if a.ID > b.ID {
		a, b = b, a
	}
	return tb.mk(OpOr, 0, 0, "", a, b)
}

func (tb *Table) Implies(a, b *Term) *Term { return tb.Or(tb.Not(a), b) }

func (tb *Table) AndN(ts ...*Term) *Term {
	r := tb.True
	for _, t := range ts {
		r = tb.And(r, t)
	}
	return r
}

func (tb *Table) OrN(ts ...*Term) *Term {
	r := tb.False
	for _, t := range ts {
		r = tb.Or(r, t)
	}
	return r
}

func (tb *Table) Ite(c, a, b *Term) *Term {
	if c.W != 0 || a.W != b.W {
		panic(fmt.Sprintf("smt: Ite sorts %d %d %d", c.W, a.W, b.W))
	}
	if c.IsTrue() {
		return a
	}
	if c.IsFalse() {
		return b
	}
	if a == b {
		return a
	}
	if a.W == 0 {
		if a.IsTrue() && b.IsFalse() {
			return c
		}
		if a.IsFalse() && b.IsTrue() {
			return tb.Not(c)
		}
		if a.IsTrue() {
			return tb.Or(c, b)
		}
		if a.IsFalse() {
			return tb.And(tb.Not(c), b)
		}
		if b.IsTrue() {
			return tb.Or(tb.Not(c), a)
		}
		if b.IsFalse() {
			return tb.And(c, a)
		}
	}
	if c.Op == OpNot {
		return tb.mk(OpIte, a.W, 0, "", c.Args[0], b, a)
	}
	return tb.mk(OpIte, a.W, 0, "", c, a, b)
}

func (tb *Table) Eq(a, b *Term) *Term {
	if a.W != b.W {
		panic(fmt.Sprintf("smt: Eq widths %d %d", a.W, b.W))
	}
	if a == b {
		return tb.True
	}
	if a.IsConst() && b.IsConst() {
		return tb.Bool(a.C == b.C)
	}
	if a.W == 0 {
		if a.IsConst() {
			a, b = b, a
		}
		if b.IsTrue() {
			return a
		}
		if b.IsFalse() {
			return tb.Not(a)
		}
	}
	// ite(c, k1, k2) == k  with constants
	if b.IsConst() && a.Op == OpIte && a.Args[1].IsConst() && a.Args[2].IsConst() {
		return tb.Ite(a.Args[0], tb.Bool(a.Args[1].C == b.C), tb.Bool(a.Args[2].C == b.C))
	}
	if a.IsConst() && b.Op == OpIte && b.Args[1].IsConst() && b.Args[2].IsConst() {
		return tb.Ite(b.Args[0], tb.Bool(b.Args[1].C == a.C), tb.Bool(b.Args[2].C == a.C))
	}
	if a.ID > b.ID {
		a, b = b, a
	}
	return tb.mk(OpEq, 0, 0, "", a, b)
}

func (tb *Table) Ne(a, b *Term) *Term { return tb.Not(tb.Eq(a, b)) }

func foldBin(op Op, w int, x, y uint64) (uint64, bool) {
	m := mask(w)
	switch op {
	case OpAdd:
		return (x + y) & m, true
	case OpSub:
		return (x - y) & m, true
	case OpMul:
		return (x * y) & m, true
	case OpUDiv:
		if y == 0 {
			return m, true
		}
		return x / y, true
	case OpURem:
		if y == 0 {
			return x, true
		}
		return x % y, true
	case OpSDiv:
		sx, sy := sext(x, w), sext(y, w)
		if sy == 0 {
			if sx < 0 {
				return 1, true
			}
			return m, true
		}
		if sy == -1 {
			return uint64(-sx) & m, true
		}
		return uint64(sx/sy) & m, true
	case OpSRem:
		sx, sy := sext(x, w), sext(y, w)
		if sy == 0 {
			return x, true
		}
		if sy == -1 {
			return 0, true
		}
		return uint64(sx%sy) & m, true
	case OpBAnd:
		return x & y, true
	case OpBOr:
		return x | y, true
	case OpBXor:
		return x ^ y, true
	case OpShl:
		if y >= uint64(w) {
			return 0, true
		}
		return (x << y) & m, true
	case OpLShr:
		if y >= uint64(w) {
			return 0, true
		}
		return x >> y, true
	case OpAShr:
		sx := sext(x, w)
		if y >= uint64(w) {
			if sx < 0 {
				return m, true
			}
			return 0, true
		}
		return uint64(sx>>y) & m, true
	}
	return 0, false
}

// Bin builds a binary bit-vector operation (both operands width w, result width w).
func (tb *Table) Bin(op Op, a, b *Term) *Term {
	if a.W != b.W || a.W == 0 {
		panic(fmt.Sprintf("smt: Bin %s widths %d %d", opNames[op], a.W, b.W))
	}
	w := a.W
	if a.IsConst() && b.IsConst() {
		if v, ok := foldBin(op, w, a.C, b.C); ok {
			return tb.BV(w, v)
		}
	}
	switch op {
	case OpAdd:
		if a.IsConst() && a.C == 0 {
			return b
		}
		if b.IsConst() && b.C == 0 {
			return a
		}
		if a.IsConst() { // keep constants on the right
			a, b = b, a
		}
		// (x + c1) + c2
		if b.IsConst() && a.Op == OpAdd && a.Args[1].IsConst() {
			return tb.Bin(OpAdd, a.Args[0], tb.BV(w, a.Args[1].C+b.C))
		}
	case OpSub:
		if b.IsConst() && b.C == 0 {
			return a
		}
		if a == b {
			return tb.BV(w, 0)
		}
		if b.IsConst() {
			return tb.Bin(OpAdd, a, tb.BV(w, -b.C))
		}
	case OpMul:
		if a.IsConst() {
			a, b = b, a
		}
		if b.IsConst() {
			if b.C == 0 {
				return b
			}
			if b.C == 1 {
				return a
			}
			if bits.OnesCount64(b.C) == 1 {
				return tb.Bin(OpShl, a, tb.BV(w, uint64(bits.TrailingZeros64(b.C))))
			}
		}
	case OpUDiv:
		if b.IsConst() && b.C == 1 {
			return a
		}
		if b.IsConst() && b.C != 0 && bits.OnesCount64(b.C) == 1 {
			return tb.Bin(OpLShr, a, tb.BV(w, uint64(bits.TrailingZeros64(b.C))))
		}
	case OpURem:
		if b.IsConst() && b.C != 0 && bits.OnesCount64(b.C) == 1 {
			return tb.Bin(OpBAnd, a, tb.BV(w, b.C-1))
		}
	case OpBAnd:
		if a == b {
			return a
		}
		if a.IsConst() {
			a, b = b, a
		}
		if b.IsConst() {
			if b.C == 0 {
				return b
			}
			if b.C == mask(w) {
				return a
			}
			// low-bit mask of a zero-extension that fits: identity
			if a.Op == OpZExt && bits.OnesCount64(b.C+1) == 1 && bits.Len64(b.C) >= a.Args[0].W {
				return a
			}
		}
	case OpBOr:
		if a == b {
			return a
		}
		if a.IsConst() {
			a, b = b, a
		}
		if b.IsConst() {
			if b.C == 0 {
				return a
			}
			if b.C == mask(w) {
				return b
			}
		}
	case OpBXor:
		if a == b {
			return tb.BV(w, 0)
		}
		if a.IsConst() {
			a, b = b, a
		}
		if b.IsConst() && b.C == 0 {
			return a
		}
	case OpShl, OpLShr, OpAShr:
		if b.IsConst() {
			if b.C == 0 {
				return a
			}
			if b.C >= uint64(w) && op != OpAShr {
				return tb.BV(w, 0)
			}
			k := int(b.C)
			if op == OpLShr && k < w {
				// (x >> k) == zext(extract[w-1:k] x)
				return tb.ZExt(tb.Extract(a, w-1, k), w)
			}
			if op == OpShl && k < w {
				return tb.Concat(tb.Extract(a, w-1-k, 0), tb.BV(k, 0))
			}
		}
		if a.IsConst() && a.C == 0 {
			return a
		}
	}
	return tb.mk(op, w, 0, "", a, b)
}

func (tb *Table) Add(a, b *Term) *Term { return tb.Bin(OpAdd, a, b) }
func (tb *Table) Sub(a, b *Term) *Term { return tb.Bin(OpSub, a, b) }

func (tb *Table) BNot(a *Term) *Term {
	if a.IsConst() {
		return tb.BV(a.W, ^a.C)
	}
	if a.Op == OpBNot {
		return a.Args[0]
	}
	return tb.mk(OpBNot, a.W, 0, "", a)
}

func (tb *Table) Neg(a *Term) *Term {
	if a.IsConst() {
		return tb.BV(a.W, -a.C)
	}
	return tb.mk(OpNeg, a.W, 0, "", a)
}

// Cmp builds Ult/Ule/Slt/Sle.
func (tb *Table) Cmp(op Op, a, b *Term) *Term {
	if a.W != b.W || a.W == 0 {
		panic(fmt.Sprintf("smt: Cmp widths %d %d", a.W, b.W))
	}
	if a.IsConst() && b.IsConst() {
		switch op {
		case OpUlt:
			return tb.Bool(a.C < b.C)
		case OpUle:
			return tb.Bool(a.C <= b.C)
		case OpSlt:
			return tb.Bool(sext(a.C, a.W) < sext(b.C, b.W))
		case OpSle:
			return tb.Bool(sext(a.C, a.W) <= sext(b.C, b.W))
		}
	}
	if a == b {
		return tb.Bool(op == OpUle || op == OpSle)
	}
	switch op {
	case OpUlt:
		if b.IsConst() && b.C == 0 {
			return tb.False
		}
		if a.IsConst() && a.C == mask(a.W) {
			return tb.False
		}
	case OpUle:
		if a.IsConst() && a.C == 0 {
			return tb.True
		}
		if b.IsConst() && b.C == mask(a.W) {
			return tb.True
		}
	}
	// comparisons of zero-extended values against small constants
	if (op == OpUlt || op == OpUle || op == OpSlt || op == OpSle) && a.Op == OpZExt && b.IsConst() && a.Args[0].W < a.W {
		iw := a.Args[0].W
		if op == OpSlt || op == OpSle {
			if sext(b.C, b.W) < 0 {
				return tb.False
			}
		}
		if b.C > mask(iw) {
			return tb.True
		}
		nop := OpUlt
		if op == OpUle || op == OpSle {
			nop = OpUle
		}
		return tb.Cmp(nop, a.Args[0], tb.BV(iw, b.C))
	}
	return tb.mk(op, 0, 0, "", a, b)
}

func (tb *Table) Concat(hi, lo *Term) *Term {
	w := hi.W + lo.W
	if hi.W == 0 || lo.W == 0 || w > 64 {
		panic("smt: Concat widths")
	}
	if hi.IsConst() && lo.IsConst() {
		return tb.BV(w, hi.C<<uint(lo.W)|lo.C)
	}
	if hi.IsConst() && hi.C == 0 {
		return tb.ZExt(lo, w)
	}
	// adjacent extracts of the same term
	if hi.Op == OpExtract && lo.Op == OpExtract && hi.Args[0] == lo.Args[0] {
		hh, hl := int(hi.C>>8), int(hi.C&0xff)
		lh, ll := int(lo.C>>8), int(lo.C&0xff)
		if hl == lh+1 {
			return tb.Extract(hi.Args[0], hh, ll)
		}
	}
	return tb.mk(OpConcat, w, 0, "", hi, lo)
}

func (tb *Table) Extract(a *Term, hi, lo int) *Term {
	if a.W == 0 || hi >= a.W || lo < 0 || hi < lo {
		panic(fmt.Sprintf("smt: Extract [%d:%d] of width %d", hi, lo, a.W))
	}
	w := hi - lo + 1
	if w == a.W {
		return a
	}
	if a.IsConst() {
		return tb.BV(w, a.C>>uint(lo))
	}
	switch a.Op {
	case OpExtract:
		ilo := int(a.C & 0xff)
		return tb.Extract(a.Args[0], hi+ilo, lo+ilo)
	case OpConcat:
		l := a.Args[1]
		if hi < l.W {
			return tb.Extract(l, hi, lo)
		}
		if lo >= l.W {
			return tb.Extract(a.Args[0], hi-l.W, lo-l.W)
		}
	case OpZExt:
		in := a.Args[0]
		if hi < in.W {
			return tb.Extract(in, hi, lo)
		}
		if lo >= in.W {
			return tb.BV(w, 0)
		}
		return tb.ZExt(tb.Extract(in, in.W-1, lo), w)
	case OpSExt:
		in := a.Args[0]
		if hi < in.W {
			return tb.Extract(in, hi, lo)
		}
	case OpBAnd, OpBOr, OpBXor:
		if a.Args[1].IsConst() {
			return tb.Bin(a.Op, tb.Extract(a.Args[0], hi, lo), tb.Extract(a.Args[1], hi, lo))
		}
	case OpIte:
		if a.Args[1].IsConst() || a.Args[2].IsConst() {
			return tb.Ite(a.Args[0], tb.Extract(a.Args[1], hi, lo), tb.Extract(a.Args[2], hi, lo))
		}
	case OpAdd, OpSub, OpMul:
		if lo == 0 {
			return tb.Bin(a.Op, tb.Extract(a.Args[0], hi, 0), tb.Extract(a.Args[1], hi, 0))
		}
	}
	return tb.mk(OpExtract, w, uint64(hi)<<8|uint64(lo), "", a)
}

func (tb *Table) ZExt(a *Term, w int) *Term {
	if w == a.W {
		return a
	}
	if w < a.W || a.W == 0 {
		panic("smt: ZExt")
	}
	if a.IsConst() {
		return tb.BV(w, a.C)
	}
	if a.Op == OpZExt {
		return tb.ZExt(a.Args[0], w)
	}
	return tb.mk(OpZExt, w, 0, "", a)
}

func (tb *Table) SExt(a *Term, w int) *Term {
	if w == a.W {
		return a
	}
	if w < a.W || a.W == 0 {
		panic("smt: SExt")
	}
	if a.IsConst() {
		return tb.BV(w, uint64(sext(a.C, a.W)))
	}
	if a.Op == OpZExt { // sign bit known 0
		return tb.ZExt(a.Args[0], w)
	}
	return tb.mk(OpSExt, w, 0, "", a)
}

// Resize converts an integer of width a.W to width w (truncate or extend by signedness).
func (tb *Table) Resize(a *Term, w int, signed bool) *Term {
	switch {
	case w == a.W:
		return a
	case w < a.W:
		return tb.Extract(a, w-1, 0)
	case signed:
		return tb.SExt(a, w)
	default:
		return tb.ZExt(a, w)
	}
}

// BoolToBV gives ite(b, 1, 0) of width w.
func (tb *Table) BoolToBV(b *Term, w int) *Term {
	return tb.Ite(b, tb.BV(w, 1), tb.BV(w, 0))
}

// Popcount as a sum of bits, result width = a.W.
func (tb *Table) Popcount(a *Term) *Term {
	if a.IsConst() {
		return tb.BV(a.W, uint64(bits.OnesCount64(a.C)))
	}
	w := a.W
	r := tb.BV(w, 0)
	for i := 0; i < w; i++ {
		r = tb.Add(r, tb.ZExt(tb.Extract(a, i, i), w))
	}
	return r
}

// ---------- floating point on carriers ----------

func fval(c uint64, w int) float64 {
	if w == 32 {
		return float64(math.Float32frombits(uint32(c)))
	}
	return math.Float64frombits(c)
}

func fbits(f float64, w int) uint64 {
	if w == 32 {
		return uint64(math.Float32bits(float32(f)))
	}
	return math.Float64bits(f)
}

func (tb *Table) FCmp(op Op, a, b *Term) *Term {
	if a.W != b.W || (a.W != 32 && a.W != 64) {
		panic("smt: FCmp widths")
	}
	if a.IsConst() && b.IsConst() {
		x, y := fval(a.C, a.W), fval(b.C, b.W)
		switch op {
		case OpFLt:
			return tb.Bool(x < y)
		case OpFLe:
			return tb.Bool(x <= y)
		case OpFEq:
			return tb.Bool(x == y)
		}
	}
	return tb.mk(op, 0, 0, "", a, b)
}

func (tb *Table) FIsNaN(a *Term) *Term {
	if a.IsConst() {
		return tb.Bool(math.IsNaN(fval(a.C, a.W)))
	}
	return tb.mk(OpFIsNaN, 0, 0, "", a)
}

func (tb *Table) FBin(op Op, a, b *Term) *Term {
	if a.W != b.W || (a.W != 32 && a.W != 64) {
		panic("smt: FBin widths")
	}
	if a.IsConst() && b.IsConst() {
		var r float64
		if a.W == 32 {
			x, y := math.Float32frombits(uint32(a.C)), math.Float32frombits(uint32(b.C))
			var r32 float32
			switch op {
			case OpFAdd:
				r32 = x + y
			case OpFSub:
				r32 = x - y
			case OpFMul:
				r32 = x * y
			case OpFDiv:
				r32 = x / y
			}
			return tb.BV(32, uint64(math.Float32bits(r32)))
		}
		x, y := math.Float64frombits(a.C), math.Float64frombits(b.C)
		switch op {
		case OpFAdd:
			r = x + y
		case OpFSub:
			r = x - y
		case OpFMul:
			r = x * y
		case OpFDiv:
			r = x / y
		}
		return tb.BV(64, math.Float64bits(r))
	}
	return tb.mk(op, a.W, 0, "", a, b)
}

func (tb *Table) FSqrt(a *Term) *Term {
	if a.IsConst() && a.W == 64 {
		return tb.BV(64, math.Float64bits(math.Sqrt(math.Float64frombits(a.C))))
	}
	return tb.mk(OpFSqrt, a.W, 0, "", a)
}

// FToInt converts a float carrier to an integer of width w (Go semantics for in-range values).
func (tb *Table) FToInt(a *Term, w int, signed bool) *Term {
	if a.IsConst() {
		f := fval(a.C, a.W)
		if signed {
			return tb.BV(w, uint64(int64(f)))
		}
		return tb.BV(w, uint64(f))
	}
	if signed {
		return tb.mk(OpFToSBV, w, 0, "", a)
	}
	return tb.mk(OpFToUBV, w, 0, "", a)
}

func (tb *Table) IntToF(a *Term, w int, signed bool) *Term {
	if a.IsConst() {
		if signed {
			return tb.BV(w, fbits(float64(sext(a.C, a.W)), w))
		}
		return tb.BV(w, fbits(float64(a.C), w))
	}
	if signed {
		return tb.mk(OpSBVToF, w, 0, "", a)
	}
	return tb.mk(OpUBVToF, w, 0, "", a)
}

func (tb *Table) FToF(a *Term, w int) *Term {
	if a.W == w {
		return a
	}
	if a.IsConst() {
		return tb.BV(w, fbits(fval(a.C, a.W), w))
	}
	return tb.mk(OpFToF, w, 0, "", a)
}

func (tb *Table) UF(name string, w int, args ...*Term) *Term {
	return tb.mk(OpUF, w, 0, name, args...)
}

// ---------- evaluation ----------

// Eval evaluates t under the assignment (missing variables are 0).
func Eval(t *Term, env map[string]uint64, memo map[int]uint64) uint64 {
	if v, ok := memo[t.ID]; ok {
		return v
	}
	var r uint64
	a := func(i int) uint64 { return Eval(t.Args[i], env, memo) }
	b2u := func(b bool) uint64 {
		if b {
			return 1
		}
		return 0
	}
	switch t.Op {
	case OpConst:
		r = t.C
	case OpVar:
		r = env[t.Name] & maskOrBool(t.W)
	case OpNot:
		r = 1 - a(0)
	case OpAnd:
		r = a(0) & a(1)
	case OpOr:
		r = a(0) | a(1)
	case OpIte:
		if a(0) == 1 {
			r = a(1)
		} else {
			r = a(2)
		}
	case OpEq:
		r = b2u(a(0) == a(1))
	case OpAdd, OpSub, OpMul, OpUDiv, OpSDiv, OpURem, OpSRem, OpBAnd, OpBOr, OpBXor, OpShl, OpLShr, OpAShr:
		r, _ = foldBin(t.Op, t.W, a(0), a(1))
	case OpBNot:
		r = ^a(0) & mask(t.W)
	case OpNeg:
		r = -a(0) & mask(t.W)
	case OpUlt:
		r = b2u(a(0) < a(1))
	case OpUle:
		r = b2u(a(0) <= a(1))
	case OpSlt:
		r = b2u(sext(a(0), t.Args[0].W) < sext(a(1), t.Args[0].W))
	case OpSle:
		r = b2u(sext(a(0), t.Args[0].W) <= sext(a(1), t.Args[0].W))
	case OpConcat:
		r = a(0)<<uint(t.Args[1].W) | a(1)
	case OpExtract:
		hi, lo := int(t.C>>8), int(t.C&0xff)
		r = (a(0) >> uint(lo)) & mask(hi-lo+1)
	case OpZExt:
		r = a(0)
	case OpSExt:
		r = uint64(sext(a(0), t.Args[0].W)) & mask(t.W)
	case OpFLt:
		r = b2u(fval(a(0), t.Args[0].W) < fval(a(1), t.Args[0].W))
	case OpFLe:
		r = b2u(fval(a(0), t.Args[0].W) <= fval(a(1), t.Args[0].W))
	case OpFEq:
		r = b2u(fval(a(0), t.Args[0].W) == fval(a(1), t.Args[0].W))
	case OpFIsNaN:
		r = b2u(math.IsNaN(fval(a(0), t.Args[0].W)))
	case OpFAdd, OpFSub, OpFMul, OpFDiv:
		x, y := fval(a(0), t.W), fval(a(1), t.W)
		var f float64
		switch t.Op {
		case OpFAdd:
			f = x + y
		case OpFSub:
			f = x - y
		case OpFMul:
			f = x * y
		case OpFDiv:
			f = x / y
		}
		if t.W == 32 {
			f = float64(float32(f))
		}
		r = fbits(f, t.W)
	case OpFSqrt:
		r = fbits(math.Sqrt(fval(a(0), t.W)), t.W)
	case OpFToSBV:
		r = uint64(int64(fval(a(0), t.Args[0].W))) & mask(t.W)
	case OpFToUBV:
		r = uint64(fval(a(0), t.Args[0].W)) & mask(t.W)
	case OpSBVToF:
		r = fbits(float64(sext(a(0), t.Args[0].W)), t.W)
	case OpUBVToF:
		r = fbits(float64(a(0)), t.W)
	case OpFToF:
		r = fbits(fval(a(0), t.Args[0].W), t.W)
	case OpUF:
		r = 0
	default:
		panic("smt: Eval op")
	}
	memo[t.ID] = r
	return r
}

func maskOrBool(w int) uint64 {
	if w == 0 {
		return 1
	}
	return mask(w)
}

// HasUF reports whether t mentions an uninterpreted function or FP arithmetic (evaluation may be imprecise).
func HasUF(t *Term, seen map[int]bool) bool {
	if seen[t.ID] {
		return false
	}
	seen[t.ID] = true
	if t.Op == OpUF {
		return true
	}
	for _, a := range t.Args {
		if HasUF(a, seen) {
			return true
		}
	}
	return false
}

// ---------- printing ----------

func sortStr(w int) string {
	if w == 0 {
		return "Bool"
	}
	return fmt.Sprintf("(_ BitVec %d)", w)
}

func constStr(t *Term) string {
	if t.W == 0 {
		if t.C == 1 {
			return "true"
		}
		return "false"
	}
	if t.W%4 == 0 {
		return fmt.Sprintf("#x%0*x", t.W/4, t.C)
	}
	return fmt.Sprintf("#b%0*b", t.W, t.C)
}

func fpSort(w int) (int, int) {
	if w == 32 {
		return 8, 24
	}
	return 11, 53
}

func toFP(s string, w int) string {
	e, m := fpSort(w)
	return fmt.Sprintf("((_ to_fp %d %d) %s)", e, m, s)
}

// Printer emits definitions once per solver session.
type Printer struct {
	defined map[int]bool
	ufs     map[string]bool
}

func NewPrinter() *Printer { return &Printer{defined: map[int]bool{}, ufs: map[string]bool{}} }

func (p *Printer) Reset() { p.defined = map[int]bool{}; p.ufs = map[string]bool{} }

func ref(t *Term) string {
	switch t.Op {
	case OpConst:
		return constStr(t)
	case OpVar:
		return "|" + t.Name + "|"
	}
	return fmt.Sprintf("t%d", t.ID)
}

// Define writes to sb every definition needed for t that has not been written in this session
// and returns the reference to use for t.
func (p *Printer) Define(sb *strings.Builder, t *Term) string {
	p.define(sb, t)
	return ref(t)
}

func (p *Printer) define(sb *strings.Builder, t *Term) {
	if t.Op == OpConst || p.defined[t.ID] {
		return
	}
	p.defined[t.ID] = true
	if t.Op == OpVar {
		fmt.Fprintf(sb, "(declare-const |%s| %s)\n", t.Name, sortStr(t.W))
		return
	}
	for _, a := range t.Args {
		p.define(sb, a)
	}
	r := func(i int) string { return ref(t.Args[i]) }
	var body string
	switch t.Op {
	case OpExtract:
		body = fmt.Sprintf("((_ extract %d %d) %s)", t.C>>8, t.C&0xff, r(0))
	case OpZExt:
		body = fmt.Sprintf("((_ zero_extend %d) %s)", t.W-t.Args[0].W, r(0))
	case OpSExt:
		body = fmt.Sprintf("((_ sign_extend %d) %s)", t.W-t.Args[0].W, r(0))
	case OpFLt, OpFLe, OpFEq:
		n := map[Op]string{OpFLt: "fp.lt", OpFLe: "fp.leq", OpFEq: "fp.eq"}[t.Op]
		w := t.Args[0].W
		body = fmt.Sprintf("(%s %s %s)", n, toFP(r(0), w), toFP(r(1), w))
	case OpFIsNaN:
		body = fmt.Sprintf("(fp.isNaN %s)", toFP(r(0), t.Args[0].W))
	case OpFAdd, OpFSub, OpFMul, OpFDiv, OpFSqrt, OpSBVToF, OpUBVToF, OpFToF:
		// result carrier is a fresh constant constrained by its FP value
		e, m := fpSort(t.W)
		var rhs string
		switch t.Op {
		case OpFAdd, OpFSub, OpFMul, OpFDiv:
			n := map[Op]string{OpFAdd: "fp.add", OpFSub: "fp.sub", OpFMul: "fp.mul", OpFDiv: "fp.div"}[t.Op]
			rhs = fmt.Sprintf("(%s RNE %s %s)", n, toFP(r(0), t.W), toFP(r(1), t.W))
		case OpFSqrt:
			rhs = fmt.Sprintf("(fp.sqrt RNE %s)", toFP(r(0), t.W))
		case OpSBVToF:
			rhs = fmt.Sprintf("((_ to_fp %d %d) RNE %s)", e, m, r(0))
		case OpUBVToF:
			rhs = fmt.Sprintf("((_ to_fp_unsigned %d %d) RNE %s)", e, m, r(0))
		case OpFToF:
			rhs = fmt.Sprintf("((_ to_fp %d %d) RNE %s)", e, m, toFP(r(0), t.Args[0].W))
		}
		fmt.Fprintf(sb, "(declare-const t%d %s)\n(assert (= %s %s))\n", t.ID, sortStr(t.W), toFP(ref(t), t.W), rhs)
		// canonical NaN so that the carrier is a function of the operands
		fmt.Fprintf(sb, "(assert (=> (fp.isNaN %s) (= t%d %s)))\n", toFP(ref(t), t.W), t.ID, constStr(&Term{W: t.W, C: fbits(math.NaN(), t.W)}))
		return
	case OpFToSBV:
		body = fmt.Sprintf("((_ fp.to_sbv %d) RTZ %s)", t.W, toFP(r(0), t.Args[0].W))
	case OpFToUBV:
		body = fmt.Sprintf("((_ fp.to_ubv %d) RTZ %s)", t.W, toFP(r(0), t.Args[0].W))
	case OpUF:
		if !p.ufs[t.Name] {
			p.ufs[t.Name] = true
			var as []string
			for _, a := range t.Args {
				as = append(as, sortStr(a.W))
			}
			fmt.Fprintf(sb, "(declare-fun |%s| (%s) %s)\n", t.Name, strings.Join(as, " "), sortStr(t.W))
		}
		var as []string
		for i := range t.Args {
			as = append(as, r(i))
		}
		body = fmt.Sprintf("(|%s| %s)", t.Name, strings.Join(as, " "))
	default:
		n, ok := opNames[t.Op]
		if !ok {
			panic(fmt.Sprintf("smt: print op %d", t.Op))
		}
		var as []string
		for i := range t.Args {
			as = append(as, r(i))
		}
		body = "(" + n + " " + strings.Join(as, " ") + ")"
	}
	fmt.Fprintf(sb, "(define-fun t%d () %s %s)\n", t.ID, sortStr(t.W), body)
}

// String renders a term (for diagnostics; shared sub-terms are expanded, depth limited).
func (t *Term) String() string { return t.str(6) }

func (t *Term) str(d int) string {
	switch t.Op {
	case OpConst:
		if t.W == 0 {
			return constStr(t)
		}
		return fmt.Sprintf("%d:%d", t.C, t.W)
	case OpVar:
		return t.Name
	}
	if d == 0 {
		return fmt.Sprintf("t%d", t.ID)
	}
	n := opNames[t.Op]
	if n == "" {
		n = fmt.Sprintf("op%d", t.Op)
		if t.Op == OpExtract {
			n = fmt.Sprintf("extract[%d:%d]", t.C>>8, t.C&0xff)
		}
	}
	var as []string
	for _, a := range t.Args {
		as = append(as, a.str(d-1))
	}
	return "(" + n + " " + strings.Join(as, " ") + ")"
}
