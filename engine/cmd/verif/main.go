// verif: decides the properties of /verif/properties.jsonl for the code in /repo by symbolic
// execution of the real functions (go/ssa -> SMT-LIB2 -> z3), replaying every solver model natively.
package main

import (
	"crypto/sha1"
	"encoding/json"
	"flag"
	"fmt"
	"os"
	"os/exec"
	"path/filepath"
	"runtime/pprof"
	"sort"
	"strings"
	"time"

	"golang.org/x/tools/go/packages"
	"golang.org/x/tools/go/ssa"
	"golang.org/x/tools/go/ssa/ssautil"

	"symgo/interp"
	"symgo/smt"
)

const (
	modPath  = "github.com/blevesearch/bleve/v2"
	go126Bin = "/opt/veriftools/go1.26.8/bin"
)

// repoDir is /repo for every registered check; VERIF_REPO points the tool at a scratch worktree
// when a seeded change is tried out without touching /repo (development only).
var repoDir = "/repo"

var verifDir = "/verif"

// evidenceDir: where evidence files go (default <verifDir>/evidence); trial runs against scratch
// worktrees write elsewhere so that committed evidence only ever comes from /repo.
var evidenceDir = ""

type TierSpec struct {
	Params       map[string]int `json:"params"`
	MaxDecisions int            `json:"max_decisions"`
	MaxSteps     int            `json:"max_steps"`
	BudgetS      int            `json:"budget_s"`
	TimeoutMS    int            `json:"solver_timeout_ms"`
	Skip         bool           `json:"skip"`
}

type HarnessSpec struct {
	Pkg       string   `json:"pkg"` // directory relative to /repo
	Fn        string   `json:"fn"`
	What      string   `json:"what"`
	Quick     TierSpec `json:"quick"`
	Thorough  TierSpec `json:"thorough"`
	UnwindIsViolation bool `json:"unwind_is_violation"`
	Covers    []string `json:"covers"` // labels that must be witnessed
	ReplayTimeoutS int `json:"replay_timeout_s"`
}

type PropSpec struct {
	Harnesses   []HarnessSpec `json:"harnesses"`
	Assumptions []string      `json:"assumptions"`
	Outside     []string      `json:"outside_claim"`
	Gen         []GenSpec     `json:"gen"`
}

type KnownFinding struct {
	Property string `json:"property"`
	Harness  string `json:"harness"`
	Label    string `json:"label"`     // assertion label prefix
	Status   string `json:"status"`    // "open" or "fixed"
	Commit   string `json:"commit,omitempty"`
	What     string `json:"what"`
	Predicate string `json:"predicate,omitempty"` // named witness predicate (see knownPredicates)
	Where    []struct {
		Label string `json:"label"`
		Seq   int    `json:"seq"`
		Op    string `json:"op"` // "eq", "ne", "mod7eq0", "ge", "le"
		Value uint64 `json:"value"`
	} `json:"where,omitempty"`
}

func main() {
	if len(os.Args) < 2 {
		fmt.Fprintln(os.Stderr, "usage: verif check <ID> [--tier quick|thorough] | verif replay <file> | verif selftest")
		os.Exit(2)
	}
	if d := os.Getenv("VERIF_DIR"); d != "" {
		verifDir = d
	}
	if d := os.Getenv("VERIF_REPO"); d != "" {
		repoDir = d
	}
	if d := os.Getenv("VERIF_EVIDENCE_DIR"); d != "" {
		evidenceDir = d
	}
	os.Setenv("PATH", go126Bin+":"+os.Getenv("PATH"))
	if pf := os.Getenv("VERIF_CPUPROFILE"); pf != "" {
		f, err := os.Create(pf)
		if err == nil {
			pprof.StartCPUProfile(f)
			defer pprof.StopCPUProfile()
		}
	}
	switch os.Args[1] {
	case "check":
		code := cmdCheck(os.Args[2:])
		pprof.StopCPUProfile()
		os.Exit(code)
	case "replay":
		os.Exit(cmdReplay(os.Args[2:]))
	default:
		fmt.Fprintln(os.Stderr, "unknown command", os.Args[1])
		os.Exit(2)
	}
}

func loadSpecs() map[string]*PropSpec {
	raw, err := os.ReadFile(filepath.Join(verifDir, "harness", "specs.json"))
	if err != nil {
		fatal(err)
	}
	specs := map[string]*PropSpec{}
	if err := json.Unmarshal(raw, &specs); err != nil {
		fatal(fmt.Errorf("specs.json: %v", err))
	}
	return specs
}

func sortedSpecKeys(m map[string]*PropSpec) []string {
	ks := make([]string, 0, len(m))
	for k := range m {
		ks = append(ks, k)
	}
	sort.Strings(ks)
	return ks
}

func fatal(err error) {
	fmt.Fprintln(os.Stderr, "verif:", err)
	os.Exit(2)
}

// overlayFiles maps virtual paths under /repo to real files under /verif/harness.
// extraOverlay holds generated files (virtual path -> real path) for this run.
var extraOverlay = map[string]string{}

func overlayFiles() map[string]string {
	m := map[string]string{}
	for k, v := range extraOverlay {
		m[k] = v
	}
	root := filepath.Join(verifDir, "harness")
	filepath.Walk(root, func(p string, info os.FileInfo, err error) error {
		if err != nil || info.IsDir() || !strings.HasSuffix(p, ".go") {
			return nil
		}
		rel, _ := filepath.Rel(root, p)
		if strings.HasPrefix(rel, "verifrt/") {
			m[filepath.Join(repoDir, "internal", rel)] = p
		} else {
			m[filepath.Join(repoDir, rel)] = p
		}
		return nil
	})
	return m
}

func loadProgram(pkgDirs []string) (*ssa.Program, map[string]*ssa.Package, error) {
	ov := map[string][]byte{}
	for virt, real := range overlayFiles() {
		if strings.Contains(virt, "/verifrt/replay/") {
			continue // native replay driver only
		}
		b, err := os.ReadFile(real)
		if err != nil {
			return nil, nil, err
		}
		ov[virt] = b
	}
	var patterns []string
	for _, d := range pkgDirs {
		patterns = append(patterns, "./"+d)
	}
	env := append(os.Environ(), "GOFLAGS=-mod=mod", "GOPROXY=off", "GOTOOLCHAIN=local")
	cfg := &packages.Config{Mode: packages.LoadAllSyntax, Dir: repoDir, BuildFlags: []string{"-tags=verif"}, Overlay: ov, Env: env}
	pkgs, err := packages.Load(cfg, patterns...)
	if err != nil {
		return nil, nil, err
	}
	var errs []string
	packages.Visit(pkgs, nil, func(p *packages.Package) {
		for _, e := range p.Errors {
			errs = append(errs, e.Error())
		}
	})
	if len(errs) > 0 {
		if len(errs) > 10 {
			errs = errs[:10]
		}
		return nil, nil, fmt.Errorf("loading /repo failed:\n%s", strings.Join(errs, "\n"))
	}
	prog, spkgs := ssautil.AllPackages(pkgs, ssa.InstantiateGenerics)
	prog.Build()
	byDir := map[string]*ssa.Package{}
	for i, p := range pkgs {
		rel := strings.TrimPrefix(strings.TrimPrefix(p.PkgPath, modPath), "/")
		if rel == "" {
			rel = "."
		}
		byDir[rel] = spkgs[i]
	}
	return prog, byDir, nil
}

type harnessReport struct {
	Name       string         `json:"name"`
	What       string         `json:"what,omitempty"`
	Params     map[string]int `json:"params"`
	Paths      int            `json:"paths"`
	PathKinds  map[string]int `json:"path_kinds"`
	Decisions  int            `json:"decisions"`
	Asserts    int            `json:"assertions_discharged"`
	Trivial    int            `json:"assertions_trivially_true"`
	Covers     map[string]string `json:"covers"`
	Violations int            `json:"violations"`
	Unwinds    int            `json:"unwinds"`
	Unsupported map[string]int `json:"unsupported,omitempty"`
	Inconclusive []string     `json:"inconclusive,omitempty"`
	Solver     smt.Stats      `json:"solver"`
	WallS      float64        `json:"wall_s"`
	TimedOut   bool           `json:"timed_out"`
	Pending    int            `json:"pending_paths"`
	Terms      int            `json:"terms"`
	Used       []string       `json:"models_and_intercepts_used,omitempty"`
	CrossCheck map[string]int `json:"solver_cross_check,omitempty"`
	Verdict    string         `json:"verdict"`
}

func cmdCheck(args []string) int {
	fs := flag.NewFlagSet("check", flag.ExitOnError)
	tier := fs.String("tier", os.Getenv("VERIF_TIER"), "quick or thorough")
	only := fs.String("harness", "", "run only this harness")
	workers := fs.Int("workers", 0, "worker count (default: number of CPUs, max 16)")
	trace := fs.Bool("trace", false, "trace execution (single worker)")
	keep := fs.Bool("keep", false, "keep scratch directory")
	noReplay := fs.Bool("no-replay", false, "skip native replays (debugging only; verdict becomes inconclusive if anything needs replay)")
	if len(args) < 1 {
		fatal(fmt.Errorf("check: property id required"))
	}
	id := args[0]
	fs.Parse(args[1:])
	if *tier == "" {
		*tier = "quick"
	}
	seed := 0
	fmt.Sscanf(os.Getenv("VERIF_SEED"), "%d", &seed)
	t0 := time.Now()
	specs := loadSpecs()
	ps, ok := specs[id]
	if !ok {
		fatal(fmt.Errorf("no harnesses registered for %s", id))
	}
	nw := *workers
	if nw <= 0 {
		nw = 16
	}
	if *trace {
		nw = 1
	}
	var dirs []string
	seen := map[string]bool{}
	for _, h := range ps.Harnesses {
		if !seen[h.Pkg] {
			seen[h.Pkg] = true
			dirs = append(dirs, h.Pkg)
		}
	}
	tl := time.Now()
	scratch, _ := os.MkdirTemp("", "verif-"+id+"-")
	if !*keep {
		defer os.RemoveAll(scratch)
	}
	os.MkdirAll(filepath.Join(scratch, "gen"), 0o755)
	var genErr error
	// every generated file is needed whenever its package is compiled, so generate all of them
	var allGen []GenSpec
	for _, k := range sortedSpecKeys(specs) {
		allGen = append(allGen, specs[k].Gen...)
	}
	for _, g := range allGen {
		virt, real, err := generate(g, filepath.Join(scratch, "gen"))
		if err != nil {
			genErr = err
			break
		}
		extraOverlay[virt] = real
	}
	var prog *ssa.Program
	var byDir map[string]*ssa.Package
	var err error
	if genErr != nil {
		err = genErr
	} else {
		prog, byDir, err = loadProgram(dirs)
	}
	if err != nil {
		fmt.Printf("INCONCLUSIVE property=%s reason=%q\n", id, err.Error())
		writeEvidence(id, *tier, seed, nil, nil, ps, time.Since(t0).Seconds(), 0, 0, []string{"load failure: " + err.Error()}, nil)
		return 2
	}
	loadS := time.Since(tl).Seconds()
	fmt.Printf("loaded %d packages, built SSA in %.1fs\n", len(prog.AllPackages()), loadS)

	var reports []*harnessReport
	var problems []string
	type pending struct {
		w    *interp.Witness
		h    HarnessSpec
		file string
	}
	var toReplay []pending
	fnTotals := map[string]int{}
	var samples []any
	for _, h := range ps.Harnesses {
		if *only != "" && h.Fn != *only {
			continue
		}
		ts := h.Quick
		if *tier == "thorough" {
			ts = h.Thorough
			if ts.MaxDecisions == 0 && ts.Params == nil && ts.BudgetS == 0 {
				ts = h.Quick
			}
		}
		if ts.Skip {
			continue
		}
		pkg := byDir[h.Pkg]
		if pkg == nil {
			problems = append(problems, "package not loaded: "+h.Pkg)
			continue
		}
		entry := pkg.Func(h.Fn)
		if entry == nil {
			problems = append(problems, "harness not found: "+h.Fn)
			continue
		}
		cfg := &interp.Config{MaxDecisions: ts.MaxDecisions, MaxSteps: ts.MaxSteps, Params: ts.Params, SolverName: "z3", TimeoutMS: ts.TimeoutMS, Trace: *trace, Tier: *tier}
		if cfg.MaxDecisions == 0 {
			cfg.MaxDecisions = 400
		}
		if cfg.MaxSteps == 0 {
			cfg.MaxSteps = 2_000_000
		}
		if cfg.TimeoutMS == 0 {
			cfg.TimeoutMS = 20000
			if *tier == "thorough" {
				cfg.TimeoutMS = 60000
			}
		}
		if cfg.Params == nil {
			cfg.Params = map[string]int{}
		}
		budget := time.Duration(ts.BudgetS) * time.Second
		if budget == 0 {
			budget = 15 * time.Minute
		}
		ex := &interp.Explorer{Prog: prog, Cfg: cfg, Workers: nw, Budget: budget}
		res, err := ex.Run(entry, h.Fn)
		if err != nil {
			problems = append(problems, h.Fn+": "+err.Error())
			continue
		}
		s := res.Sink
		rep := &harnessReport{Name: h.Fn, What: h.What, Params: cfg.Params, Paths: s.Paths, PathKinds: s.PathKinds, Decisions: s.Counters["decisions"],
			Asserts: s.Asserts, Trivial: s.AssertsTrivial, Covers: map[string]string{}, Violations: len(s.Violations), Unwinds: s.Counters["unwinds"],
			Unsupported: s.Unsupported, Inconclusive: s.Inconclusive, Solver: res.Solver, WallS: res.Wall, TimedOut: res.TimedOut, Pending: res.Pending, Terms: res.Terms}
		for k := range s.Counters {
			if strings.HasPrefix(k, "used:") {
				rep.Used = append(rep.Used, strings.TrimPrefix(k, "used:"))
			}
			if strings.HasPrefix(k, "crosscheck_") {
				if rep.CrossCheck == nil {
					rep.CrossCheck = map[string]int{}
				}
				rep.CrossCheck[strings.TrimPrefix(k, "crosscheck_")] = s.Counters[k]
			}
			if strings.HasPrefix(k, "deadlock-detail: ") {
				fmt.Printf("  %s (x%d)\n", k, s.Counters[k])
			}
		}
		sort.Strings(rep.Used)
		for f, n := range s.FnCount {
			fnTotals[f] += n
		}
		for _, sm := range s.Samples {
			samples = append(samples, map[string]any{"harness": h.Fn, "path_observations": sm})
		}
		// problems that make the harness inconclusive
		if len(s.Unsupported) > 0 {
			for m, n := range s.Unsupported {
				problems = append(problems, fmt.Sprintf("%s: unsupported construct on %d path(s): %s", h.Fn, n, m))
			}
		}
		for _, b := range s.Bugs {
			problems = append(problems, h.Fn+": executor bug: "+firstLine(b))
			if *trace || *keep {
				fmt.Fprintln(os.Stderr, b)
			}
		}
		for _, m := range s.Inconclusive {
			problems = append(problems, h.Fn+": "+m)
		}
		if res.TimedOut {
			problems = append(problems, fmt.Sprintf("%s: exploration budget %s exhausted with %d prefixes pending", h.Fn, budget, res.Pending))
		}
		if res.Solver.Unknown > 0 {
			rep.Inconclusive = append(rep.Inconclusive, fmt.Sprintf("%d solver queries returned unknown (branches kept feasible)", res.Solver.Unknown))
		}
		if s.PathKinds["done"] == 0 && len(s.Violations) == 0 {
			problems = append(problems, h.Fn+": no path completed (vacuous)")
		}
		if s.Asserts == 0 && len(s.Violations) == 0 {
			problems = append(problems, h.Fn+": no assertion was reached (vacuous)")
		}
		for _, lbl := range h.Covers {
			if _, ok := s.Covers[lbl]; !ok {
				problems = append(problems, fmt.Sprintf("%s: cover point %q has no witness (vacuity guard)", h.Fn, lbl))
			}
		}
		if len(s.Unwinds) > 0 && !h.UnwindIsViolation {
			problems = append(problems, fmt.Sprintf("%s: unwinding assertion failed on %d path(s): %s", h.Fn, s.Counters["unwinds"], s.Unwinds[0].Msg))
		}
		// witnesses to replay
		n := 0
		add := func(w *interp.Witness) {
			raw, _ := json.MarshalIndent(w, "", " ")
			sum := sha1.Sum(raw)
			file := filepath.Join(scratch, fmt.Sprintf("%s-%s-%x.json", h.Fn, w.Kind, sum[:5]))
			os.WriteFile(file, raw, 0o644)
			toReplay = append(toReplay, pending{w: w, h: h, file: file})
			n++
		}
		for _, v := range s.Violations {
			add(v)
		}
		if h.UnwindIsViolation {
			for _, u := range s.Unwinds {
				add(u)
			}
		}
		var lbls []string
		for l := range s.Covers {
			lbls = append(lbls, l)
		}
		sort.Strings(lbls)
		for _, l := range lbls {
			rep.Covers[l] = "witnessed"
			add(s.Covers[l])
			if len(samples) < 12 {
				samples = append(samples, map[string]any{"harness": h.Fn, "cover": l, "inputs": nondetSummary(s.Covers[l])})
			}
		}
		reports = append(reports, rep)
		fmt.Printf("harness %-40s paths=%d (%s) asserts=%d viol=%d covers=%d queries=%d (sat %d unsat %d unknown %d) solver=%.1fs wall=%.1fs\n",
			h.Fn, s.Paths, kindsStr(s.PathKinds), s.Asserts, len(s.Violations), len(s.Covers), res.Solver.Queries, res.Solver.Sat, res.Solver.Unsat, res.Solver.Unknown, res.Solver.Seconds, res.Wall)
	}

	// ---- native replay ----
	validated := 0
	var violations []string
	var knownLines []string
	known := loadKnown()
	if len(toReplay) > 0 && !*noReplay {
		byPkg := map[string][]pending{}
		for _, p := range toReplay {
			byPkg[p.h.Pkg] = append(byPkg[p.h.Pkg], p)
		}
		for pkgDir, ps2 := range byPkg {
			maxT := 20
			for _, p := range ps2 {
				if p.h.ReplayTimeoutS > maxT {
					maxT = p.h.ReplayTimeoutS
				}
			}
			outcomes, err := runNativeReplay(pkgDir, byDir[pkgDir], scratch, maxT)
			if err != nil {
				problems = append(problems, "native replay failed: "+err.Error())
				continue
			}
			for _, p := range ps2 {
				oc, ok := outcomes[filepath.Base(p.file)]
				if !ok {
					problems = append(problems, fmt.Sprintf("%s: witness %s was not replayed", p.h.Fn, filepath.Base(p.file)))
					continue
				}
				switch p.w.Kind {
				case "cover":
					hit := false
					for _, c := range oc.Covers {
						if c == p.w.Label {
							hit = true
						}
					}
					if hit {
						validated++
					} else {
						problems = append(problems, fmt.Sprintf("%s: cover %q predicted by the encoding was not reached natively (outcome %s): encoding and real code disagree", p.h.Fn, p.w.Label, oc.Outcome))
					}
				default:
					repro := reproduced(p.w, oc)
					// a hang found under the executor's cooperative schedule may need the native
					// scheduler's cooperation: try the replay a few more times before giving up
					if !repro && (p.w.Kind == "deadlock" || p.w.Kind == "unwind") {
						for attempt := 1; attempt <= 4 && !repro; attempt++ {
							rdir := filepath.Join(scratch, fmt.Sprintf("retry-%s-%d", strings.TrimSuffix(filepath.Base(p.file), ".json"), attempt))
							os.MkdirAll(rdir, 0o755)
							raw, _ := os.ReadFile(p.file)
							os.WriteFile(filepath.Join(rdir, filepath.Base(p.file)), raw, 0o644)
							oc2, err2 := runNativeReplay(pkgDir, byDir[pkgDir], rdir, maxT)
							if err2 != nil {
								break
							}
							if o, ok := oc2[filepath.Base(p.file)]; ok && reproduced(p.w, o) {
								repro, oc = true, o
							}
						}
					}
					if !repro {
						problems = append(problems, fmt.Sprintf("%s: counterexample for %q did not reproduce natively (outcome %s): treated as spurious, check is inconclusive", p.h.Fn, p.w.Label, oc.Outcome))
						continue
					}
					validated++
					if kf := matchKnown(known, id, p.w); kf != nil {
						knownLines = append(knownLines, fmt.Sprintf("KNOWN-FINDING: property=%s %s", id, kf.What))
						continue
					}
					// keep the replay file
					dst := filepath.Join(verifDir, "replays", id)
					if evidenceDir != "" {
						dst = filepath.Join(evidenceDir, "replays", id)
					}
					os.MkdirAll(dst, 0o755)
					final := filepath.Join(dst, filepath.Base(p.file))
					raw, _ := os.ReadFile(p.file)
					os.WriteFile(final, raw, 0o644)
					violations = append(violations, fmt.Sprintf("VIOLATION property=%s replay=%s", id, final))
					fmt.Printf("  counterexample harness=%s label=%q inputs=%s native=%s\n", p.h.Fn, p.w.Label, nondetSummary(p.w), oc.Outcome)
				}
			}
		}
	} else if len(toReplay) > 0 {
		for _, p := range toReplay {
			if p.w.Kind != "cover" {
				problems = append(problems, "unreplayed counterexample for "+p.w.Label)
			}
		}
	}

	seenK := map[string]bool{}
	for _, l := range knownLines {
		if !seenK[l] {
			seenK[l] = true
			fmt.Println(l)
		}
	}
	for _, v := range violations {
		fmt.Println(v)
	}
	states, transitions := 0, 0
	for _, r := range reports {
		states += r.Paths + r.Decisions
		transitions += r.Decisions + r.Paths
	}
	wall := time.Since(t0).Seconds()
	var fns []map[string]any
	for f, n := range fnTotals {
		if strings.Contains(f, "bleve") && !strings.Contains(f, "verifrt") && !strings.Contains(f, "VerifH_") {
			fns = append(fns, map[string]any{"function": f, "instructions_executed": n})
		}
	}
	sort.Slice(fns, func(i, j int) bool { return fns[i]["function"].(string) < fns[j]["function"].(string) })
	writeEvidence(id, *tier, seed, reports, samples, ps, wall, validated, len(violations), problems, fns)
	_ = states
	_ = transitions
	if len(violations) > 0 {
		return 1
	}
	if len(problems) > 0 {
		seenP := map[string]bool{}
		for _, p := range problems {
			if seenP[p] {
				continue
			}
			seenP[p] = true
			fmt.Printf("INCONCLUSIVE property=%s %s\n", id, p)
		}
		return 2
	}
	fmt.Printf("OK property=%s tier=%s harnesses=%d wall=%.1fs\n", id, *tier, len(reports), wall)
	return 0
}

// reproduced: did the native run show what the solver's counterexample predicts?
func reproduced(w *interp.Witness, oc replayOutcome) bool {
	switch w.Kind {
	case "assert":
		return oc.Outcome == "assert:"+w.Label
	case "panic":
		return strings.HasPrefix(oc.Outcome, "panic:")
	case "unwind":
		return oc.Outcome == "timeout" || strings.HasPrefix(oc.Outcome, "assert:")
	case "deadlock":
		return oc.Outcome == "timeout"
	}
	return false
}

func firstLine(s string) string {
	if i := strings.Index(s, "\n"); i >= 0 {
		return s[:i]
	}
	return s
}

func kindsStr(m map[string]int) string {
	var ss []string
	for _, k := range interp.SortedKeys(m) {
		ss = append(ss, fmt.Sprintf("%s:%d", k, m[k]))
	}
	return strings.Join(ss, " ")
}

func nondetSummary(w *interp.Witness) string {
	var ss []string
	for i, n := range w.Nondet {
		if i >= 24 {
			ss = append(ss, "...")
			break
		}
		ss = append(ss, fmt.Sprintf("%s#%d=%#x", n.Label, n.Seq, n.Value))
	}
	return strings.Join(ss, " ")
}

func loadKnown() []KnownFinding {
	raw, err := os.ReadFile(filepath.Join(verifDir, "known_findings.json"))
	if err != nil {
		return nil
	}
	var k []KnownFinding
	if err := json.Unmarshal(raw, &k); err != nil {
		fatal(fmt.Errorf("known_findings.json: %v", err))
	}
	return k
}

func nondetVal(w *interp.Witness, label string, seq int) (uint64, bool) {
	for _, n := range w.Nondet {
		if n.Label == label && n.Seq == seq {
			return n.Value, true
		}
	}
	return 0, false
}

// knownPredicates identify the specific inputs of a recorded finding, so that a different
// violation of the same assertion is still reported.
var knownPredicates = map[string]func(w *interp.Witness) bool{
	// the enumerated range's first and last term differ above the two lowest 7-bit digits
	"c07_two_digit_carry": func(w *interp.Witness) bool {
		level, ok1 := nondetVal(w, "level", 0)
		lo, ok2 := nondetVal(w, "lo", 0)
		cnt, ok3 := nondetVal(w, "count", 0)
		if !ok1 || !ok2 || !ok3 || level > 15 {
			return false
		}
		shift := uint(level) * 4
		hi := lo + cnt<<shift
		sLo := (lo ^ 0x8000000000000000) >> shift
		sHi := (hi ^ 0x8000000000000000) >> shift
		return sLo>>14 != sHi>>14
	},
}

func matchKnown(known []KnownFinding, id string, w *interp.Witness) *KnownFinding {
	for i := range known {
		k := &known[i]
		if k.Status != "open" || k.Property != id || k.Harness != w.Harness || !strings.HasPrefix(w.Label, k.Label) {
			continue
		}
		ok := true
		if k.Predicate != "" {
			f := knownPredicates[k.Predicate]
			if f == nil || !f(w) {
				continue
			}
		}
		for _, c := range k.Where {
			var v uint64
			found := false
			for _, n := range w.Nondet {
				if n.Label == c.Label && n.Seq == c.Seq {
					v, found = n.Value, true
				}
			}
			if !found {
				ok = false
				break
			}
			switch c.Op {
			case "eq":
				ok = ok && v == c.Value
			case "ne":
				ok = ok && v != c.Value
			case "ge":
				ok = ok && v >= c.Value
			case "le":
				ok = ok && v <= c.Value
			default:
				ok = false
			}
		}
		if ok {
			return k
		}
	}
	return nil
}

// runNativeReplay compiles the harnesses of one package with the repository's own toolchain and
// runs every witness file of the scratch directory.
func runNativeReplay(pkgDir string, pkg *ssa.Package, scratch string, timeoutS int) (map[string]replayOutcome, error) {
	// generated test file listing the package's harnesses
	var names []string
	for name, m := range pkg.Members {
		if _, ok := m.(*ssa.Function); ok && strings.HasPrefix(name, "VerifH_") {
			names = append(names, name)
		}
	}
	sort.Strings(names)
	var sb strings.Builder
	fmt.Fprintf(&sb, "//go:build verif\n\npackage %s\n\nimport (\n\t\"testing\"\n\n\t\"%s/internal/verifrt/replay\"\n)\n\nfunc TestVerifReplay(t *testing.T) {\n\treplay.RunReplay(t, map[string]func(){\n", pkg.Pkg.Name(), modPath)
	for _, n := range names {
		fmt.Fprintf(&sb, "\t\t%q: %s,\n", n, n)
	}
	sb.WriteString("\t})\n}\n")
	testFile := filepath.Join(scratch, "zz_verif_replay_"+strings.ReplaceAll(pkgDir, "/", "_")+"_test.go")
	if err := os.WriteFile(testFile, []byte(sb.String()), 0o644); err != nil {
		return nil, err
	}
	ov := map[string]map[string]string{"Replace": {}}
	for virt, real := range overlayFiles() {
		ov["Replace"][virt] = real
	}
	ov["Replace"][filepath.Join(repoDir, pkgDir, "zz_verif_replay_test.go")] = testFile
	ovFile := filepath.Join(scratch, "overlay_"+strings.ReplaceAll(pkgDir, "/", "_")+".json")
	raw, _ := json.Marshal(ov)
	os.WriteFile(ovFile, raw, 0o644)
	outFile := filepath.Join(scratch, "outcomes_"+strings.ReplaceAll(pkgDir, "/", "_")+".jsonl")
	os.Remove(outFile)
	outcomes := map[string]replayOutcome{}
	// the process exits after a timeout outcome, so loop until every witness has an outcome or no progress is made
	for iter := 0; iter < 20; iter++ {
		cmd := exec.Command("go", "test", "-mod=mod", "-tags=verif", "-vet=off", "-count=1", "-overlay", ovFile, "-run", "^TestVerifReplay$", "-timeout", "30m", "./"+pkgDir)
		cmd.Dir = repoDir
		env := []string{}
		for _, e := range os.Environ() {
			if strings.HasPrefix(e, "PATH=") || strings.HasPrefix(e, "GOTOOLCHAIN=") || strings.HasPrefix(e, "GOFLAGS=") {
				continue
			}
			env = append(env, e)
		}
		// the repository's own toolchain selection (default go with auto switch), as the baseline uses
		path := strings.TrimPrefix(os.Getenv("PATH"), go126Bin+":")
		env = append(env, "PATH="+path, "GOPROXY=off", "VERIF_REPLAY_DIR="+scratch, "VERIF_REPLAY_OUT="+outFile, fmt.Sprintf("VERIF_REPLAY_TIMEOUT_S=%d", timeoutS))
		if done := os.Getenv("VERIF_REPLAY_DONE"); done != "" {
			_ = done
		}
		cmd.Env = env
		out, err := cmd.CombinedOutput()
		before := len(outcomes)
		if rawOut, e2 := os.ReadFile(outFile); e2 == nil {
			for _, line := range strings.Split(string(rawOut), "\n") {
				if strings.TrimSpace(line) == "" {
					continue
				}
				var o replayOutcome
				if json.Unmarshal([]byte(line), &o) == nil {
					outcomes[o.File] = o
				}
			}
		}
		if err != nil && len(outcomes) == before {
			return outcomes, fmt.Errorf("go test: %v\n%s", err, tail(string(out), 30))
		}
		// move replayed witnesses aside so that a re-run continues with the rest
		remaining := 0
		files, _ := filepath.Glob(filepath.Join(scratch, "*.json"))
		for _, f := range files {
			b := filepath.Base(f)
			if strings.HasPrefix(b, "overlay_") {
				continue
			}
			if _, ok := outcomes[b]; ok {
				os.Rename(f, f+".done")
			} else if belongsTo(f, names) {
				remaining++
			}
		}
		if remaining == 0 || len(outcomes) == before {
			break
		}
	}
	// restore names for later inspection
	files, _ := filepath.Glob(filepath.Join(scratch, "*.json.done"))
	for _, f := range files {
		os.Rename(f, strings.TrimSuffix(f, ".done"))
	}
	return outcomes, nil
}

func belongsTo(file string, names []string) bool {
	raw, err := os.ReadFile(file)
	if err != nil {
		return false
	}
	var w struct {
		Harness string `json:"harness"`
	}
	if json.Unmarshal(raw, &w) != nil {
		return false
	}
	for _, n := range names {
		if n == w.Harness {
			return true
		}
	}
	return false
}

func tail(s string, n int) string {
	lines := strings.Split(strings.TrimRight(s, "\n"), "\n")
	if len(lines) > n {
		lines = lines[len(lines)-n:]
	}
	return strings.Join(lines, "\n")
}

type replayOutcome struct {
	File     string   `json:"file"`
	Harness  string   `json:"harness"`
	Outcome  string   `json:"outcome"`
	Covers   []string `json:"covers"`
	Diverged bool     `json:"diverged"`
	Seconds  float64  `json:"seconds"`
}

func writeEvidence(id, tier string, seed int, reports []*harnessReport, samples []any, ps *PropSpec, wall float64, validated, violations int, problems []string, fns []map[string]any) {
	states, transitions, obligations := 0, 0, 0
	var solver smt.Stats
	for _, r := range reports {
		states += r.Paths + r.Decisions
		transitions += r.Paths + r.Decisions
		obligations += r.Asserts
		solver.Add(r.Solver)
	}
	if len(samples) == 0 {
		samples = []any{"(no sample recorded)"}
	}
	verdict := "holds within bounds"
	if violations > 0 {
		verdict = "violated"
	} else if len(problems) > 0 {
		verdict = "inconclusive"
	}
	cov := map[string]any{
		"states":                        states,
		"transitions":                   transitions,
		"traces_validated_against_impl": validated,
		"samples":                       samples,
		"obligations":                   obligations,
		"discharged":                    obligations,
		"explanation":                   "bounded symbolic execution of the real functions (go/ssa of /repo's working tree) with z3 deciding every branch feasibility and every assertion; states = completed paths + symbolic decision nodes; obligations = assertion queries answered unsat (or folded to true) on some path; every sat answer (counterexample or cover witness) is replayed natively",
		"harnesses":                     reports,
		"functions_encoded":             fns,
		"solver":                        map[string]any{"backend": "z3 4.8.12 (one live process per worker, push/pop); a sample of discharged obligations per harness is re-decided one-shot by z3 5.1.0 and cvc5 1.0 (see solver_cross_check per harness)", "queries": solver.Queries, "sat": solver.Sat, "unsat": solver.Unsat, "unknown": solver.Unknown, "errors": solver.Errors, "seconds": solver.Seconds, "max_query_seconds": solver.MaxSeconds},
		"outside_claim":                 ps.Outside,
		"verdict":                       verdict,
		"problems":                      problems,
	}
	ev := map[string]any{
		"property_id": id,
		"tier":        tier,
		"seed":        seed,
		"level":       "model_checking",
		"coverage":    cov,
		"assumptions": ps.Assumptions,
		"wall_s":      wall,
		"violations":  violations,
	}
	if ev["assumptions"] == nil {
		ev["assumptions"] = []string{}
	}
	raw, _ := json.MarshalIndent(ev, "", " ")
	ed := evidenceDir
	if ed == "" {
		ed = filepath.Join(verifDir, "evidence")
	}
	os.MkdirAll(ed, 0o755)
	os.WriteFile(filepath.Join(ed, id+".json"), raw, 0o644)
}

func cmdReplay(args []string) int {
	if len(args) < 1 {
		fatal(fmt.Errorf("replay: file required"))
	}
	raw, err := os.ReadFile(args[0])
	if err != nil {
		fatal(err)
	}
	var w interp.Witness
	if err := json.Unmarshal(raw, &w); err != nil {
		fatal(err)
	}
	specs := loadSpecs()
	var hs *HarnessSpec
	for _, ps := range specs {
		for i := range ps.Harnesses {
			if ps.Harnesses[i].Fn == w.Harness {
				hs = &ps.Harnesses[i]
			}
		}
	}
	if hs == nil {
		fatal(fmt.Errorf("harness %s not registered", w.Harness))
	}
	scratch, _ := os.MkdirTemp("", "verif-replay-")
	defer os.RemoveAll(scratch)
	os.MkdirAll(filepath.Join(scratch, "gen"), 0o755)
	for _, k := range sortedSpecKeys(specs) {
		for _, g := range specs[k].Gen {
			virt, real, err := generate(g, filepath.Join(scratch, "gen"))
			if err != nil {
				fatal(err)
			}
			extraOverlay[virt] = real
		}
	}
	_, byDir, err := loadProgram([]string{hs.Pkg})
	if err != nil {
		fatal(err)
	}
	os.WriteFile(filepath.Join(scratch, filepath.Base(args[0])), raw, 0o644)
	t := hs.ReplayTimeoutS
	if t == 0 {
		t = 20
	}
	outcomes, err := runNativeReplay(hs.Pkg, byDir[hs.Pkg], scratch, t)
	if err != nil {
		fatal(err)
	}
	for f, o := range outcomes {
		fmt.Printf("%s: harness=%s outcome=%s covers=%v diverged=%v\n", f, o.Harness, o.Outcome, o.Covers, o.Diverged)
		if o.Outcome != "ok" {
			return 1
		}
	}
	return 0
}
