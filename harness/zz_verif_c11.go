//go:build verif

package bleve

import (
	"context"
	"errors"
	"io"
	"os"
	"path/filepath"

	"github.com/blevesearch/bleve/v2/document"
	rt "github.com/blevesearch/bleve/v2/internal/verifrt"
	index "github.com/blevesearch/bleve_index_api"
)

// verifIdx is a stub index.Index: every operation records that it was reached and returns an
// arbitrary error (nil or not); Reader hands out a stub reader that counts Close calls.
type verifIdx struct {
	index.Index
	touched    int
	readers    int
	readerOpen int
	closed     int
}

var verifErr = errors.New("verif: stub failure")

func verifMaybeErr(label string) error {
	if rt.Choice(label, 2) == 1 {
		return verifErr
	}
	return nil
}

// Close models what the scorch engine does: its Close closes the engine's close channel, so a
// second Close of the same engine panics (confirmed against the real engine through the public API).
func (x *verifIdx) Close() error {
	x.touched++
	x.closed++
	if x.closed > 1 {
		panic("close of closed channel")
	}
	return verifMaybeErr("close_err")
}
func (x *verifIdx) Update(doc index.Document) error   { x.touched++; return verifMaybeErr("update_err") }
func (x *verifIdx) Delete(id string) error            { x.touched++; return verifMaybeErr("delete_err") }
func (x *verifIdx) Batch(b *index.Batch) error        { x.touched++; return verifMaybeErr("batch_err") }
func (x *verifIdx) SetInternal(key, val []byte) error { x.touched++; return verifMaybeErr("setint_err") }
func (x *verifIdx) DeleteInternal(key []byte) error   { x.touched++; return verifMaybeErr("delint_err") }
func (x *verifIdx) StatsMap() map[string]interface{}  { return nil }
func (x *verifIdx) Reader() (index.IndexReader, error) {
	x.touched++
	if err := verifMaybeErr("reader_err"); err != nil {
		return nil, err
	}
	x.readers++
	x.readerOpen++
	return &verifIdxReader{x: x}, nil
}

type verifIdxReader struct {
	index.IndexReader
	x      *verifIdx
	closed int
}

func (r *verifIdxReader) Close() error {
	r.closed++
	r.x.readerOpen--
	return verifMaybeErr("reader_close_err")
}
func (r *verifIdxReader) DocCount() (uint64, error) { return 7, verifMaybeErr("doccount_err") }
func (r *verifIdxReader) Document(id string) (index.Document, error) {
	if err := verifMaybeErr("document_err"); err != nil {
		return nil, err
	}
	return nil, nil
}
func (r *verifIdxReader) Fields() ([]string, error) { return []string{"f"}, verifMaybeErr("fields_err") }
func (r *verifIdxReader) GetInternal(key []byte) ([]byte, error) {
	return []byte{1}, verifMaybeErr("getint_err")
}
func (r *verifIdxReader) FieldDict(field string) (index.FieldDict, error) {
	if err := verifMaybeErr("fielddict_err"); err != nil {
		return nil, err
	}
	return &verifFieldDict{}, nil
}
func (r *verifIdxReader) FieldDictRange(field string, s, e []byte) (index.FieldDict, error) {
	return r.FieldDict(field)
}
func (r *verifIdxReader) FieldDictPrefix(field string, p []byte) (index.FieldDict, error) {
	return r.FieldDict(field)
}

type verifFieldDict struct{ closed int }

func (d *verifFieldDict) Next() (*index.DictEntry, error) { return nil, nil }
func (d *verifFieldDict) Close() error                    { d.closed++; return nil }
func (d *verifFieldDict) Cardinality() int                { return 0 }
func (d *verifFieldDict) BytesRead() uint64               { return 0 }

// VerifH_C11_ClosedAndLocks: every operation of the index API that the property names, on an index
// whose open flag is symbolic and whose engine is a stub returning arbitrary errors:
// on every path the index mutex is free again at return, a closed index answers ErrorIndexClosed
// without touching the engine, and every reader that was opened is closed exactly once.
func verifInitStats() {
	if indexStats == nil {
		indexStats = NewIndexStats()
	}
}

func VerifH_C11_ClosedAndLocks() {
	verifInitStats()
	x := &verifIdx{}
	i := &indexImpl{i: x, open: rt.Choice("open", 2) == 1, name: "verif", stats: &IndexStat{}}
	i.stats.i = i
	wasOpen := i.open
	var err error
	op := rt.Choice("op", 14)
	var fd index.FieldDict
	switch op {
	case 0:
		err = i.Delete("a")
	case 1:
		err = i.Batch(i.NewBatch())
	case 2:
		_, err = i.Document("a")
	case 3:
		_, err = i.DocCount()
	case 4:
		_, err = i.Fields()
	case 5:
		fd, err = i.FieldDict("f")
	case 6:
		fd, err = i.FieldDictRange("f", []byte("a"), []byte("b"))
	case 7:
		fd, err = i.FieldDictPrefix("f", []byte("a"))
	case 8:
		_, err = i.GetInternal([]byte("k"))
	case 9:
		err = i.SetInternal([]byte("k"), []byte("v"))
	case 10:
		err = i.DeleteInternal([]byte("k"))
	case 11:
		err = i.IndexAdvanced(document.NewDocument("a"))
	case 12:
		err = i.CopyTo(nil)
	case 13:
		rt.Assume(!wasOpen) // the open side enters the whole search stack (covered by the collector/searcher properties)
		_, err = i.SearchInContext(context.Background(), NewSearchRequest(NewMatchNoneQuery()))
	}
	if !wasOpen {
		rt.Assert(err == ErrorIndexClosed, "a closed index answers with the closed-index error")
		rt.Assert(x.touched == 0, "a closed index does not touch the engine")
	}
	if fd != nil {
		// the dictionary keeps the index read-locked until it is closed
		rt.Assert(err == nil, "a dictionary is returned without error")
		cerr := fd.Close()
		_ = cerr
	}
	rt.Assert(rt.MutexFree(&i.mutex), "the index mutex is free when the call has returned")
	// (readers leaked when the engine itself fails mid-call are outside C11: see DESIGN.md, observation O-C11-a)
	if err == nil {
		rt.Assert(x.readerOpen == 0, "after a successful call every reader that was opened has been closed")
	}
	rt.Cover(rt.And(wasOpen, err != nil, x.readers == 1), "error-path-with-reader")
	rt.Cover(rt.And(wasOpen, fd != nil), "dictionary-opened")
}

// VerifH_C11_Close: Close marks the index closed whatever the engine returns, releases the mutex, and
// every later call returns the closed error; a second Close does not panic.
func VerifH_C11_Close() {
	verifInitStats()
	x := &verifIdx{}
	i := &indexImpl{i: x, open: true, name: "verif", stats: &IndexStat{}}
	i.stats.i = i
	_ = i.Close()
	rt.Assert(!i.open, "closed after Close")
	rt.Assert(rt.MutexFree(&i.mutex), "mutex free after Close")
	rt.Assert(x.closed == 1, "the engine is closed once")
	_, err := i.DocCount()
	rt.Assert(err == ErrorIndexClosed, "DocCount after Close returns the closed error")
	err = i.Batch(i.NewBatch())
	rt.Assert(err == ErrorIndexClosed, "Batch after Close returns the closed error")
	err2 := i.Close()
	rt.Assert(rt.MutexFree(&i.mutex), "mutex free after a second Close")
	rt.Assert(rt.Or(err2 == nil, err2 == ErrorIndexClosed), "a second Close returns normally (nil or the closed error)")
	rt.Assert(x.closed == 1, "the engine is not closed twice")
	rt.Cover(err2 == nil, "second-close-returned")
}

// ---- CopyTo: the copy reader is released whatever the outcome ----

type verifCopyIdx struct {
	verifIdx
	r *verifCopyReader
}

type verifCopyReader struct {
	index.IndexReader
	copyErr, closeErr error
	copied, closed    int
}

func (x *verifCopyIdx) CopyReader() index.CopyReader {
	x.touched++
	return x.r
}
func (r *verifCopyReader) CopyTo(d index.Directory) error { r.copied++; return r.copyErr }
func (r *verifCopyReader) CloseCopyReader() error         { r.closed++; return r.closeErr }

type verifDirectory struct{ writerErr error }

type verifWriter struct{ closed int }

func (w *verifWriter) Write(p []byte) (int, error) { return len(p), nil }
func (w *verifWriter) Close() error                { w.closed++; return nil }
func (d *verifDirectory) GetWriter(filePath string) (io.WriteCloser, error) {
	if d.writerErr != nil {
		return nil, d.writerErr
	}
	return &verifWriter{}, nil
}

// VerifH_C14_CopyToReleases: indexImpl.CopyTo over a stub engine whose copy reader's CopyTo and
// CloseCopyReader may each fail, and whose index_meta.json may be missing or unwritable: whatever the
// outcome, the copy reader obtained for the backup has been closed exactly once when CopyTo returns
// (a backup that fails part way must not keep the source's segment files pinned for ever), the index
// mutex is free, and a failure of the data copy is reported.
func VerifH_C14_CopyToReleases() {
	verifInitStats()
	dir, derr := os.MkdirTemp("", "verifcopy")
	rt.Assert(derr == nil, "temp dir")
	defer os.RemoveAll(dir)
	if rt.Choice("meta_file_present", 2) == 1 {
		rt.Assert(os.WriteFile(filepath.Join(dir, metaFilename), []byte("{}"), 0o600) == nil, "write meta file")
	}
	r := &verifCopyReader{copyErr: verifMaybeErr("copy_fails"), closeErr: verifMaybeErr("close_fails")}
	x := &verifCopyIdx{r: r}
	i := &indexImpl{i: x, open: true, name: "verif", path: dir, meta: &indexMeta{}, stats: &IndexStat{}}
	i.stats.i = i
	d := &verifDirectory{writerErr: verifMaybeErr("writer_fails")}
	err := i.CopyTo(d)
	rt.Assert(r.closed == 1, "the copy reader is closed exactly once when CopyTo returns, whatever the outcome")
	rt.Assert(rt.MutexFree(&i.mutex), "the index mutex is free when CopyTo has returned")
	if r.copyErr != nil {
		rt.Assert(err != nil, "a failed data copy is reported")
	}
	if r.copyErr == nil && r.closeErr != nil {
		rt.Assert(err != nil, "a failure to release the copy reader is reported")
	}
	rt.Cover(rt.And(r.copyErr != nil, r.closed == 1), "failed-copy-released")
	rt.Cover(err == nil, "copy-succeeded")
}

// ---- index alias: closed flag and lock balance ----

// verifChild: a stub member index of an alias; every call may fail.
type verifChild struct {
	verifIndexIface
	touched int
	dicts   int
}

func (c *verifChild) fail(label string) error { c.touched++; return verifMaybeErr(label) }
func (c *verifChild) Name() string            { return "child" }
func (c *verifChild) Index(id string, data interface{}) error { return c.fail("child_fails") }
func (c *verifChild) Delete(id string) error                  { return c.fail("child_fails") }
func (c *verifChild) Batch(b *Batch) error                    { return c.fail("child_fails") }
func (c *verifChild) Document(id string) (index.Document, error) {
	return nil, c.fail("child_fails")
}
func (c *verifChild) DocCount() (uint64, error)  { return 1, c.fail("child_fails") }
func (c *verifChild) Fields() ([]string, error)  { return nil, c.fail("child_fails") }
func (c *verifChild) dict() (index.FieldDict, error) {
	if err := c.fail("child_fails"); err != nil {
		return nil, err
	}
	c.dicts++
	return &verifFieldDict{}, nil
}
func (c *verifChild) FieldDict(field string) (index.FieldDict, error) { return c.dict() }
func (c *verifChild) FieldDictRange(field string, s, e []byte) (index.FieldDict, error) {
	return c.dict()
}
func (c *verifChild) FieldDictPrefix(field string, p []byte) (index.FieldDict, error) {
	return c.dict()
}
func (c *verifChild) GetInternal(key []byte) ([]byte, error) { return nil, c.fail("child_fails") }
func (c *verifChild) SetInternal(key, val []byte) error      { return c.fail("child_fails") }
func (c *verifChild) DeleteInternal(key []byte) error        { return c.fail("child_fails") }

// VerifH_C11_AliasLocks: 12 operations of an index alias with a symbolic open flag over zero, one or
// two stub member indexes whose every call may fail: on every path the alias mutex is free again when
// the call returns (a field dictionary keeps the read lock until it is closed - and gives it back
// then), and a closed alias answers ErrorIndexClosed without touching its members; afterwards the
// alias can still be modified (Swap takes the write lock).
func VerifH_C11_AliasLocks() {
	nchildren := rt.Choice("members", 3)
	var members []Index
	var kids []*verifChild
	for k := 0; k < nchildren; k++ {
		c := &verifChild{}
		kids = append(kids, c)
		members = append(members, c)
	}
	a := &indexAliasImpl{name: "alias", indexes: members, open: rt.Choice("open", 2) == 1}
	wasOpen := a.open
	var err error
	var fd index.FieldDict
	switch rt.Choice("op", 12) {
	case 0:
		err = a.Index("a", nil)
	case 1:
		err = a.Delete("a")
	case 2:
		err = a.Batch(nil)
	case 3:
		_, err = a.Document("a")
	case 4:
		_, err = a.DocCount()
	case 5:
		_, err = a.Fields()
	case 6:
		fd, err = a.FieldDict("f")
	case 7:
		fd, err = a.FieldDictRange("f", []byte("a"), []byte("b"))
	case 8:
		fd, err = a.FieldDictPrefix("f", []byte("a"))
	case 9:
		_, err = a.GetInternal([]byte("k"))
	case 10:
		err = a.SetInternal([]byte("k"), []byte("v"))
	case 11:
		err = a.DeleteInternal([]byte("k"))
	}
	if !wasOpen {
		rt.Assert(err == ErrorIndexClosed, "a closed alias answers with the closed-index error")
		for _, c := range kids {
			rt.Assert(c.touched == 0, "a closed alias does not touch its members")
		}
	}
	if fd != nil {
		rt.Assert(err == nil, "a dictionary is returned without error")
		rt.Assert(fd.Close() == nil, "closing the dictionary succeeds")
	}
	rt.Assert(rt.MutexFree(&a.mutex), "the alias mutex is free when the call has returned (and its dictionary is closed)")
	a.Swap(nil, nil) // takes the write lock: would block for ever on a leaked read lock
	rt.Cover(rt.And(wasOpen, nchildren == 1, err != nil, fd == nil), "member-call-failed")
	rt.Cover(rt.And(wasOpen, fd != nil), "alias-dictionary-opened")
}
