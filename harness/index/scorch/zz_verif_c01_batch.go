//go:build verif

package scorch

import (
	"github.com/blevesearch/bleve/v2/document"
	rt "github.com/blevesearch/bleve/v2/internal/verifrt"
	index "github.com/blevesearch/bleve_index_api"
	segment "github.com/blevesearch/scorch_segment_api/v2"
)

// verifNewPlugin: the stub plugin whose NewUsing builds "the analysed documents at doc numbers
// 0..n-1 in the order given" (zap's contract for a new segment).
type verifNewPlugin struct{ verifPlugin }

func (p *verifNewPlugin) NewUsing(results []index.Document, config map[string]interface{}) (segment.Segment, uint64, error) {
	var ids []byte
	for _, r := range results {
		id := r.ID()
		rt.Assert(len(id) == 1, "analysed document carries its id")
		hasID := false
		r.VisitFields(func(f index.Field) {
			if f.Name() == "_id" {
				hasID = string(f.Value()) == id
			}
		})
		rt.Assert(hasID, "the _id field was added before the segment is built")
		ids = append(ids, id[0])
	}
	return &verifSeg{n: len(ids), idOf: ids, refs: 1}, 0, nil
}
func (p *verifNewPlugin) New(results []index.Document) (segment.Segment, uint64, error) {
	return p.NewUsing(results, nil)
}

// VerifH_C01_ScorchBatch: a symbolic program of batch-building calls (index.Batch Update / Delete /
// SetInternal / DeleteInternal over two ids and one key, several calls on one id allowed, empty
// batch allowed) executed by the real Scorch.Batch (ids collection, analysis queue, segment
// construction by the stub plugin, prepareSegment, introducerLoop) on an arbitrary well-formed
// root; the new root must be the old content with the last call per id / key applied.
func VerifH_C01_ScorchBatch() {
	nIDs := 2
	nsegs := rt.Choice("nsegs", rt.Param("max_segs", 1)+1)
	s, _, oldLive, oldInt := verifSetup(nsegs, rt.Param("max_docs", 2), nIDs)
	s.segPlugin = &verifNewPlugin{}
	s.analysisQueue = index.NewAnalysisQueue(1)
	s.asyncTasks.Add(1)
	go s.introducerLoop()
	ncalls := rt.Choice("ncalls", rt.Param("calls", 3)+1)
	b := index.NewBatch()
	exp := &verifBatchT{op: make([]int, nIDs)}
	for c := 0; c < ncalls; c++ {
		switch rt.Choice("call", 4) {
		case 0:
			x := rt.Choice("id", nIDs)
			b.Update(document.NewDocument(string([]byte{'a' + byte(x)})))
			exp.op[x] = 1
		case 1:
			x := rt.Choice("id", nIDs)
			b.Delete(string([]byte{'a' + byte(x)}))
			exp.op[x] = 2
		case 2:
			v := rt.U8("int_val")
			b.SetInternal([]byte("k"), []byte{v})
			exp.intOp, exp.intVal = 1, v
		case 3:
			b.DeleteInternal([]byte("k"))
			exp.intOp = 2
		}
	}
	err := s.Batch(b)
	rt.Assert(err == nil, "Batch succeeds")
	cur := s.currentSnapshot()
	total := 0
	for x := 0; x < nIDs; x++ {
		got := verifLive(cur, 'a'+byte(x))
		switch exp.op[x] {
		case 0:
			rt.Assert(got == oldLive[x], "an id the batch does not mention keeps its state")
		case 1:
			rt.Assert(got == 1, "an id whose last operation is an upsert is live exactly once")
		case 2:
			rt.Assert(got == 0, "an id whose last operation is a delete is not live")
		}
		total += got
	}
	dc, err := cur.DocCount()
	rt.Assert(rt.And(err == nil, dc == uint64(total)), "DocCount is the number of live ids")
	v, err := cur.GetInternal([]byte("k"))
	rt.Assert(err == nil, "GetInternal")
	switch exp.intOp {
	case 0:
		rt.Assert(rt.EqBytes(v, oldInt), "internal value untouched")
	case 1:
		rt.Assert(rt.And(len(v) == 1, rt.EqBytes(v, []byte{exp.intVal})), "internal value is the last one set")
	case 2:
		rt.Assert(v == nil, "internal value deleted")
	}
	verifWellFormed(cur, nIDs, "new root")
	// every live id is enumerated exactly once by the all-documents reader
	r, err := cur.DocIDReaderAll()
	rt.Assert(err == nil, "DocIDReaderAll")
	seen := 0
	for {
		id, err := r.Next()
		rt.Assert(err == nil, "DocIDReader.Next")
		if id == nil {
			break
		}
		seen++
		rt.Assert(seen <= total, "the all-documents reader returns no more than the live documents")
	}
	rt.Assert(seen == total, "the all-documents reader returns every live document once")
	_ = cur.DecRef()
	rt.Cover(rt.And(exp.op[0] == 2, exp.op[1] == 1, ncalls == 3), "update-then-delete-same-id")
	rt.Cover(rt.And(ncalls == 0), "empty-batch")
	close(s.closeCh)
	s.asyncTasks.Wait()
}
