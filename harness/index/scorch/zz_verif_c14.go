//go:build verif

package scorch

import (
	"bytes"
	"io"
	"os"
	"path/filepath"

	rt "github.com/blevesearch/bleve/v2/internal/verifrt"
	"github.com/blevesearch/bleve/v2/util"
)

// verifCopyDir is a stub index.Directory: segment data handed to it is kept in memory by file name;
// files that already exist on disk in the source are "copied" by name (GetWriter returns nil for
// them, which the real copyToDirectory treats as already there), so no real file I/O is needed.
type verifCopyDir struct {
	written map[string]*bytes.Buffer
	asked   []string
}

type verifBufCloser struct{ *bytes.Buffer }

func (b verifBufCloser) Close() error { return nil }

func (d *verifCopyDir) GetWriter(filePath string) (io.WriteCloser, error) {
	d.asked = append(d.asked, filePath)
	if d.written == nil {
		d.written = map[string]*bytes.Buffer{}
	}
	base := filepath.Base(filePath)
	if _, err := os.ReadFile(filepath.Join("/idx-src", base)); err == nil {
		return nil, nil
	}
	buf := &bytes.Buffer{}
	d.written[base] = buf
	return verifBufCloser{buf}, nil
}

// WriteTo lets an in-memory stub segment be written into a copy.
func (s *verifCUSeg) WriteTo(w io.Writer) (int64, error) {
	n, err := w.Write(append([]byte{byte(s.n)}, s.idOf[:s.n]...))
	return int64(n), err
}

// VerifH_C14_CopyMetadata: the part of an online copy that is bleve's own bookkeeping. The copy
// reader is the root snapshot taken under the lock with its files scheduled; the metadata written for
// the copy (the real prepareBoltSnapshot with a destination directory, into a second bolt file)
// records exactly that snapshot - its segments (persisted ones by name, in-memory ones written
// out), its deleted sets and its internal values - whatever is indexed after the copy reader was
// taken; the snapshot read back from the copy's metadata (real loadSnapshot) has the same content.
func VerifH_C14_CopyMetadata() {
	nIDs := rt.Param("ids", 2)
	s := verifNewScorch()
	if supportedSegmentPlugins == nil {
		ResetSegmentPlugins()
	}
	RegisterSegmentPlugin(verifTheCPlugin, false)
	s.segPlugin = verifTheCPlugin
	nsegs := rt.Choice("nsegs", 2) + 1
	root := &IndexSnapshot{parent: s, refs: 1, epoch: 7, internal: map[string][]byte{"seq": {rt.U8("seq")}}, creator: "verif"}
	var running uint64
	for i := 0; i < nsegs; i++ {
		id := uint64(i + 1)
		n := rt.Choice("ndocs", 2) + 1
		ids := rt.Bytes("idof", n)
		for k := range ids {
			rt.Assume(rt.And(ids[k] >= 'a', ids[k] < 'a'+byte(nIDs)))
		}
		ss := &SegmentSnapshot{id: id, stats: newFieldStats(), cachedDocs: &cachedDocs{cache: nil}, cachedMeta: newCachedMeta()}
		if rt.Choice("persisted", 2) == 1 {
			fn := filepath.Join("/idx-src", zapFileName(id))
			rt.Assert(verifWriteSegFile(fn, ids) == nil, "source file")
			ss.segment = &verifPSeg{verifSeg{n: n, idOf: ids, refs: 1, path: fn}}
		} else {
			ss.segment = &verifCUSeg{verifSeg{n: n, idOf: ids, refs: 1}}
		}
		del := rt.U64("deleted")
		rt.Assume(del>>uint(n) == 0)
		if rt.Choice("has_deleted", 2) == 1 {
			rt.Assume(del != 0)
			ss.deleted = rt.BitmapFromBits(del)
		} else {
			rt.Assume(del == 0)
		}
		root.segment = append(root.segment, ss)
		root.offsets = append(root.offsets, running)
		running += uint64(n)
	}
	s.root = root
	want := make([]int, nIDs)
	for x := 0; x < nIDs; x++ {
		want[x] = verifLive(root, 'a'+byte(x))
	}
	cr := s.CopyReader()
	snap, ok := cr.(*IndexSnapshot)
	rt.Assert(ok && snap == root, "the copy reader is the root snapshot as of the call")
	for _, ss := range root.segment {
		rt.Assert(s.copyScheduled[verifFileNameOf(ss)] > 0, "the snapshot's files are protected while the copy runs")
	}
	// the index moves on while the copy is being taken
	rt.Assert(s.introduceSegment(&segmentIntroduction{id: 60, ids: []string{"a"}, applied: make(chan error, 1), internal: map[string][]byte{"seq": {0xEE}}}) == nil, "a later batch")
	// write the copy's metadata
	dst := verifTempDir()
	defer os.RemoveAll(dst)
	copyBolt, err := util.OpenBolt(filepath.Join(dst, "root.bolt"), 0o600, nil)
	rt.Assert(err == nil, "open copy bolt")
	tx, err := copyBolt.Begin(true)
	rt.Assert(err == nil, "begin")
	d := &verifCopyDir{}
	_, _, err = prepareBoltSnapshot(snap, tx, "", s.segPlugin, d)
	rt.Assert(err == nil, "prepareBoltSnapshot into the copy")
	rt.Assert(tx.Commit() == nil, "commit")
	rt.Assert(snap.CloseCopyReader() == nil, "close copy reader")
	rt.Assert(len(s.copyScheduled) == 0, "schedule released")
	// materialise what the directory received for in-memory segments, then read the copy back
	for name, buf := range d.written {
		rt.Assert(os.WriteFile(filepath.Join(dst, name), buf.Bytes(), 0o600) == nil, "store copied segment")
	}
	for _, ss := range root.segment {
		if st := verifStub(ss.segment); st != nil && st.path != "" {
			rt.Assert(verifWriteSegFile(filepath.Join(dst, filepath.Base(st.path)), st.idOf[:st.n]) == nil, "file copied by name")
		}
	}
	s2 := verifNewScorch()
	s2.path = dst
	s2.segPlugin = verifTheCPlugin
	s2.root = &IndexSnapshot{parent: s2, refs: 1}
	s2.rootBolt = copyBolt
	rt.Assert(s2.loadFromBolt() == nil, "the copy's metadata loads")
	rt.Assert(s2.root.epoch == 7, "the copy is at the snapshot's epoch")
	for x := 0; x < nIDs; x++ {
		got := 0
		for _, ss := range s2.root.segment {
			st := verifStub(ss.segment)
			del := rt.BitmapBits(ss.deleted)
			for k := 0; k < st.n; k++ {
				got += rt.IteInt(rt.And(del>>uint(k)&1 == 0, st.idOf[k] == 'a'+byte(x)), 1, 0)
			}
		}
		rt.Assert(got == want[x], "the copy holds exactly the snapshot's live documents, not the later batch")
	}
	rt.Assert(rt.EqBytes(s2.root.internal["seq"], root.internal["seq"]), "the copy holds the snapshot's internal values")
	_ = copyBolt.Close()
	rt.Cover(len(d.written) >= 1, "in-memory-segment-written-out")
}
