//go:build verif

package scorch

import (
	"math"
	"os"
	"path/filepath"
	"strconv"
	"strings"

	"github.com/RoaringBitmap/roaring/v2"
	rt "github.com/blevesearch/bleve/v2/internal/verifrt"
	"github.com/blevesearch/bleve/v2/util"
	segment "github.com/blevesearch/scorch_segment_api/v2"
)

// verifCrashHook, when set, is called by the stub plugin right after it has written a segment file
// (the only file effects besides bolt commits): a crash point.
var verifCrashHook func(what string)

// verifMergeHook, when set, is called by the stub plugin's Merge before it writes the merged file:
// the place where a writer's batch can arrive "during a merge".
var verifMergeHook func()

// verifMergeAwaitCancel is set by a merge hook that has just cancelled the context of the very merge
// it runs in (never for merges not governed by that context).
var verifMergeAwaitCancel bool

// verifCPlugin is the stub plugin with crash points and zap's merge contract.
type verifCPlugin struct{ verifPlugin }

func (p *verifCPlugin) MergeUsing(segments []segment.Segment, drops []*roaring.Bitmap, path string,
	closeCh chan struct{}, s segment.StatsReporter, config map[string]interface{}) ([][]uint64, uint64, error) {
	if verifMergeHook != nil {
		verifMergeHook()
	}
	// like zap's merge, give up when the caller's cancel channel is closed; a hook that cancelled the
	// context governing this merge asks to wait until the cancellation has arrived
	if verifMergeAwaitCancel {
		verifMergeAwaitCancel = false
		<-closeCh
	}
	select {
	case <-closeCh:
		return nil, 0, segment.ErrClosed
	default:
	}
	var ids []byte
	newNums := make([][]uint64, len(segments))
	for i, sg := range segments {
		st := verifStub(sg)
		if st == nil {
			if us, ok := sg.(*verifCUSeg); ok {
				st = &us.verifSeg
			}
		}
		del := rt.BitmapBits(drops[i])
		newNums[i] = make([]uint64, st.n)
		for k := 0; k < st.n; k++ {
			if del>>uint(k)&1 == 1 {
				newNums[i][k] = verifDocDropped
			} else {
				newNums[i][k] = uint64(len(ids))
				ids = append(ids, st.idOf[k])
			}
		}
	}
	if err := verifWriteSegFile(path, ids); err != nil {
		return nil, 0, err
	}
	if verifCrashHook != nil {
		verifCrashHook("merged segment file written")
	}
	return newNums, uint64(len(ids)), nil
}
func (p *verifCPlugin) Merge(segments []segment.Segment, drops []*roaring.Bitmap, path string,
	closeCh chan struct{}, s segment.StatsReporter) ([][]uint64, uint64, error) {
	return p.MergeUsing(segments, drops, path, closeCh, s, nil)
}

// verifCUSeg: in-memory segment whose Persist is a crash point.
type verifCUSeg struct{ verifSeg }

func (s *verifCUSeg) Persist(path string) error {
	if err := verifWriteSegFile(path, s.idOf[:s.n]); err != nil {
		return err
	}
	if verifCrashHook != nil {
		verifCrashHook("segment file written")
	}
	return nil
}

var verifTheCPlugin = &verifCPlugin{}

// verifModel is the reference: the logical content after a prefix of batches.
type verifModel struct {
	live map[byte]bool
	seq  byte
}

func (m verifModel) clone() verifModel {
	c := verifModel{live: map[byte]bool{}, seq: m.seq}
	for k, v := range m.live {
		c.live[k] = v
	}
	return c
}

type verifOps struct {
	upsert []byte
	delete []byte
	seq    byte
}

func (m verifModel) apply(o verifOps) verifModel {
	c := m.clone()
	for _, x := range o.delete {
		delete(c.live, x)
	}
	for _, x := range o.upsert {
		c.live[x] = true
	}
	c.seq = o.seq
	return c
}

// verifRecover: what a process started on a copy of the directory taken now would see: the real
// loadFromBolt and removeOldZapFiles on the copy. Returns the live ids and the sequence number.
func verifRecover(dir string) (live map[byte]int, seq []byte, s2 *Scorch) {
	cp := verifTempDir()
	rt.Assert(rt.CopyTree(dir, cp) == nil, "copy the index directory")
	if supportedSegmentPlugins == nil {
		ResetSegmentPlugins()
	}
	RegisterSegmentPlugin(verifTheCPlugin, false)
	s2 = verifNewScorch()
	s2.path = cp
	s2.segPlugin = verifTheCPlugin
	s2.numSnapshotsToKeep = 1
	s2.root = &IndexSnapshot{parent: s2, refs: 1, creator: "verif"}
	var err error
	s2.rootBolt, err = util.OpenBolt(cp+string(os.PathSeparator)+"root.bolt", 0o600, nil)
	rt.Assert(err == nil, "open the copied bolt file")
	rt.Assert(s2.loadFromBolt() == nil, "the index opens again after the crash")
	rt.Assert(s2.removeOldZapFiles() == nil, "startup cleanup succeeds")
	live = map[byte]int{}
	for _, ss := range s2.root.segment {
		st := verifStub(ss.segment)
		rt.Assert(st != nil, "recovered segment is a stub")
		del := rt.BitmapBits(ss.deleted)
		for k := 0; k < st.n; k++ {
			if del>>uint(k)&1 == 0 {
				live[st.idOf[k]]++
			}
			// the file of every recovered segment is there
		}
		rt.Assert(verifFileExists(st.path), "every segment file of the recovered snapshot exists")
	}
	seq = s2.root.internal["seq"]
	// ids handed out after recovery never collide with a file that is still on disk
	ents, _ := os.ReadDir(cp)
	for _, e := range ents {
		if filepath.Ext(e.Name()) == ".zap" {
			id, perr := strconv.ParseUint(strings.TrimSuffix(e.Name(), ".zap"), 16, 64)
			rt.Assert(perr == nil, "zap file name parses")
			rt.Assert(s2.nextSegmentID > id, "new segment ids start above every file on disk")
		}
	}
	return live, seq, s2
}

// verifSame: does the recovered content equal the model?
func verifSame(live map[byte]int, seq []byte, m verifModel) bool {
	for x, n := range live {
		if n != 1 || !m.live[x] {
			return false
		}
	}
	for x := range m.live {
		if live[x] != 1 {
			return false
		}
	}
	if m.seq == 0 {
		return len(seq) == 0
	}
	return len(seq) == 1 && seq[0] == m.seq
}

func verifBatchOps(b int, nIDs int) verifOps {
	o := verifOps{seq: byte(b + 1)}
	for x := 0; x < nIDs; x++ {
		switch rt.Choice("op", 3) {
		case 1:
			o.upsert = append(o.upsert, 'a'+byte(x))
		case 2:
			o.delete = append(o.delete, 'a'+byte(x))
		}
	}
	return o
}

func (o verifOps) ids() []string {
	var ids []string
	for _, x := range o.upsert {
		ids = append(ids, string([]byte{x}))
	}
	for _, x := range o.delete {
		ids = append(ids, string([]byte{x}))
	}
	return ids
}

func (o verifOps) seg() segment.Segment {
	if len(o.upsert) == 0 {
		return nil
	}
	return &verifCUSeg{verifSeg{n: len(o.upsert), idOf: append([]byte{}, o.upsert...), refs: 1}}
}

func verifStartDisk(dir string, safe bool) *Scorch {
	if supportedSegmentPlugins == nil {
		ResetSegmentPlugins()
	}
	RegisterSegmentPlugin(verifTheCPlugin, false)
	s := verifNewScorch()
	s.path = dir
	s.segPlugin = verifTheCPlugin
	s.numSnapshotsToKeep = 1
	s.unsafeBatch = !safe
	s.root = &IndexSnapshot{parent: s, refs: 1, creator: "verif"}
	s.persisterOptions = &persisterOptions{NumPersisterWorkers: 1, MemoryPressurePauseThreshold: math.MaxUint64}
	var err error
	s.rootBolt, err = util.OpenBolt(dir+string(os.PathSeparator)+"root.bolt", 0o600, nil)
	rt.Assert(err == nil, "open bolt")
	return s
}

// VerifH_C03_AckedIsDurable: safe batches through the real prepareSegment, introducerLoop and
// persisterLoop (with its purge) over the bolt and file models. Crash points: right after every
// segment file write, when a persisted callback fires, when a batch call returns. At every crash
// point the copied directory opens again (real loadFromBolt + cleanup) and holds exactly the effect
// of a prefix of the batches; that prefix includes every batch that was acknowledged or whose
// callback had fired; never part of a batch.
func VerifH_C03_AckedIsDurable() {
	dir := verifTempDir()
	defer os.RemoveAll(dir)
	nIDs := rt.Param("ids", 2)
	nb := rt.Param("batches", 2)
	s := verifStartDisk(dir, true)
	s.numSnapshotsToKeep = rt.Choice("keep", 2) + 1
	s.asyncTasks.Add(2)
	go s.introducerLoop()
	go s.persisterLoop()
	models := []verifModel{{live: map[byte]bool{}}}
	acked := 0
	crashes := 0
	check := func(what string, atLeast int) {
		live, seq, s2 := verifRecover(dir)
		ok := false
		for p := atLeast; p < len(models); p++ {
			if verifSame(live, seq, models[p]) {
				ok = true
			}
		}
		rt.Assert(ok, "after a crash ("+what+") the index holds exactly a prefix of the batches that includes every acknowledged one")
		_ = s2.rootBolt.Close()
		crashes++
	}
	verifCrashHook = func(what string) { check(what, acked) }
	defer func() { verifCrashHook = nil }()
	for b := 0; b < nb; b++ {
		o := verifBatchOps(b, nIDs)
		models = append(models, models[len(models)-1].apply(o))
		mine := len(models) - 1
		// (the persister releases the waiting batch before it runs the persisted callbacks, so the
		// callback may fire after the call returns: no order between the two is asserted)
		cbDone := make(chan struct{})
		err := s.prepareSegment(o.seg(), o.ids(), map[string][]byte{"seq": {o.seq}}, func(err error) {
			check("persisted callback", mine)
			close(cbDone)
		})
		rt.Assert(err == nil, "batch accepted")
		<-cbDone // natively the callback runs on the persister goroutine: let it finish before going on
		acked = mine
		check("batch acknowledged", acked)
	}
	close(s.closeCh)
	s.asyncTasks.Wait()
	rt.Cover(crashes >= 4, "several-crash-points")
}

// VerifH_C03_MemMergeRound: a persister round that merges in-memory segments
// (persistSnapshotMaybeMerge with the real mergeAndPersistInMemorySegments and introduceMerge) while
// a later batch arrives during the merge. Crash after the round: the directory holds exactly the
// batches of the snapshot that was being persisted - the later batch is absent as a whole (its
// deletes must not leak into the persisted snapshot); after the next round it is there as a whole.
func VerifH_C03_MemMergeRound() {
	dir := verifTempDir()
	defer os.RemoveAll(dir)
	nIDs := rt.Param("ids", 2)
	s := verifStartDisk(dir, false)
	s.asyncTasks.Add(1)
	go s.introducerLoop()
	models := []verifModel{{live: map[byte]bool{}}}
	submit := func(b int) {
		o := verifBatchOps(b, nIDs)
		models = append(models, models[len(models)-1].apply(o))
		rt.Assert(s.prepareSegment(o.seg(), o.ids(), map[string][]byte{"seq": {o.seq}}, nil) == nil, "batch accepted")
	}
	submit(0)
	submit(1)
	// the persister picks up the root now
	s.rootLock.Lock()
	our := s.root
	our.AddRef()
	s.rootLock.Unlock()
	unpersisted := 0
	for _, ss := range our.segment {
		if _, ok := ss.segment.(segment.PersistedSegment); !ok {
			unpersisted++
		}
	}
	during := rt.Choice("batch_during_merge", 2) == 1
	verifMergeHook = func() {
		if during {
			submit(2)
		}
		verifMergeHook = nil
	}
	defer func() { verifMergeHook = nil }()
	rt.Assert(s.persistSnapshot(our, s.persisterOptions) == nil, "persist round")
	_ = our.DecRef()
	live, seq, s2 := verifRecover(dir)
	rt.Assert(verifSame(live, seq, models[2]), "after the round the directory holds exactly the batches of the persisted snapshot")
	_ = s2.rootBolt.Close()
	if len(models) > 3 {
		// next round persists the later batch
		s.rootLock.Lock()
		our = s.root
		our.AddRef()
		s.rootLock.Unlock()
		rt.Assert(s.persistSnapshot(our, s.persisterOptions) == nil, "second persist round")
		_ = our.DecRef()
		live, seq, s2 = verifRecover(dir)
		rt.Assert(verifSame(live, seq, models[3]), "after the next round the later batch is there as a whole")
		_ = s2.rootBolt.Close()
	}
	close(s.closeCh)
	s.asyncTasks.Wait()
	rt.Cover(rt.And(unpersisted >= 2, len(models) > 3), "merge-with-batch-during")
}

// VerifH_C03_MemMergeGroups: the same round with several persister workers: four in-memory
// segments are merged as two flush groups (NumPersisterWorkers=2) while a symbolic batch over all
// four ids arrives during the merge - it may obsolete a whole group, whose merged segment is then
// not introduced. After the round the directory holds exactly the snapshot that was being
// persisted (all four earlier batches, nothing of the later one); after the next round the later
// batch as a whole.
func VerifH_C03_MemMergeGroups() {
	dir := verifTempDir()
	defer os.RemoveAll(dir)
	nIDs := 4
	s := verifStartDisk(dir, false)
	s.persisterOptions = &persisterOptions{NumPersisterWorkers: 2, MaxSizeInMemoryMergePerWorker: 1, MemoryPressurePauseThreshold: math.MaxUint64}
	s.asyncTasks.Add(1)
	go s.introducerLoop()
	models := []verifModel{{live: map[byte]bool{}}}
	put := func(o verifOps) {
		models = append(models, models[len(models)-1].apply(o))
		rt.Assert(s.prepareSegment(o.seg(), o.ids(), map[string][]byte{"seq": {o.seq}}, nil) == nil, "batch accepted")
	}
	// three or four in-memory segments: two full flush groups, or one group and a lone left-over
	nseg := rt.Choice("segments", 2) + 3
	for b := 0; b < nseg; b++ {
		put(verifOps{seq: byte(b + 1), upsert: []byte{'a' + byte(b)}})
	}
	s.rootLock.Lock()
	our := s.root
	our.AddRef()
	s.rootLock.Unlock()
	rt.Assert(len(our.segment) == nseg, "all batches are in-memory segments")
	during := rt.Choice("batch_during_merge", 2) == 1
	verifMergeHook = func() {
		verifMergeHook = nil
		if during {
			put(verifBatchOps(nseg, nIDs))
		}
	}
	defer func() { verifMergeHook = nil }()
	rt.Assert(s.persistSnapshot(our, s.persisterOptions) == nil, "persist round")
	_ = our.DecRef()
	live, seq, s2 := verifRecover(dir)
	rt.Assert(verifSame(live, seq, models[nseg]), "after the round the directory holds exactly the batches of the persisted snapshot")
	_ = s2.rootBolt.Close()
	groupGone := false
	if len(models) > nseg+1 {
		m := models[nseg+1]
		groupGone = (!m.live['a'] && !m.live['b']) || (!m.live['c'] && !m.live['d'])
		s.rootLock.Lock()
		our = s.root
		our.AddRef()
		s.rootLock.Unlock()
		rt.Assert(s.persistSnapshot(our, s.persisterOptions) == nil, "second persist round")
		_ = our.DecRef()
		live, seq, s2 = verifRecover(dir)
		rt.Assert(verifSame(live, seq, models[nseg+1]), "after the next round the later batch is there as a whole")
		_ = s2.rootBolt.Close()
	}
	close(s.closeCh)
	s.asyncTasks.Wait()
	rt.Cover(rt.And(groupGone, nseg == 4), "a-flush-group-was-obsoleted-during-the-merge")
	rt.Cover(nseg == 3, "lone-left-over-segment")
}
