//go:build verif

package scorch

import (
	"fmt"
	"os"
	"path/filepath"

	"github.com/RoaringBitmap/roaring/v2"
	"github.com/blevesearch/bleve/v2/util"
	index "github.com/blevesearch/bleve_index_api"
	segment "github.com/blevesearch/scorch_segment_api/v2"
)

// verifPlugin is a stub segment plugin: a segment "file" is a small real file whose first byte is
// the number of documents followed by their one-letter ids; Open reads it back.
type verifPlugin struct {
	opened map[string]int // how often each base name was opened
}

func (p *verifPlugin) Type() string    { return "verif" }
func (p *verifPlugin) Version() uint32 { return 1 }
func (p *verifPlugin) New(results []index.Document) (segment.Segment, uint64, error) {
	return nil, 0, fmt.Errorf("verifPlugin.New is not used")
}
func (p *verifPlugin) NewUsing(results []index.Document, config map[string]interface{}) (segment.Segment, uint64, error) {
	return p.New(results)
}
func (p *verifPlugin) Open(path string) (segment.Segment, error) {
	data, err := os.ReadFile(path)
	if err != nil {
		return nil, err
	}
	if len(data) < 1 || len(data) != 1+int(data[0]) {
		return nil, fmt.Errorf("verif segment file %s is torn", path)
	}
	if p.opened == nil {
		p.opened = map[string]int{}
	}
	p.opened[filepath.Base(path)]++
	ps := &verifPSeg{verifSeg{n: int(data[0]), idOf: append([]byte{}, data[1:]...), refs: 1, path: path}}
	if verifTrackOpened {
		verifOpenedSegs = append(verifOpenedSegs, ps)
	}
	return ps, nil
}
func (p *verifPlugin) OpenUsing(path string, config map[string]interface{}) (segment.Segment, error) {
	return p.Open(path)
}
func (p *verifPlugin) Merge(segments []segment.Segment, drops []*roaring.Bitmap, path string,
	closeCh chan struct{}, s segment.StatsReporter) ([][]uint64, uint64, error) {
	return nil, 0, fmt.Errorf("verifPlugin.Merge is not used")
}
func (p *verifPlugin) MergeUsing(segments []segment.Segment, drops []*roaring.Bitmap, path string,
	closeCh chan struct{}, s segment.StatsReporter, config map[string]interface{}) ([][]uint64, uint64, error) {
	return p.Merge(segments, drops, path, closeCh, s)
}

// Persist for the in-memory flavour.
type verifUSeg struct {
	verifSeg
}

func (s *verifUSeg) Persist(path string) error { return verifWriteSegFile(path, s.idOf[:s.n]) }

func verifWriteSegFile(path string, ids []byte) error {
	data := append([]byte{byte(len(ids))}, ids...)
	return os.WriteFile(path, data, 0o600)
}

var verifThePlugin = &verifPlugin{}

// segments handed out by the stub plugin's Open while tracking is on (each stands for an open file)
var verifTrackOpened bool
var verifOpenedSegs []*verifPSeg

// verifDiskScorch: a Scorch over a real directory and a real (natively) / modelled (symbolically)
// bbolt file, with the stub plugin, no background loops.
func verifDiskScorch(dir string) (*Scorch, error) {
	if supportedSegmentPlugins == nil {
		ResetSegmentPlugins()
	}
	RegisterSegmentPlugin(verifThePlugin, false)
	s := verifNewScorch()
	s.path = dir
	s.segPlugin = verifThePlugin
	s.numSnapshotsToKeep = 1
	s.root = &IndexSnapshot{parent: s, refs: 1, creator: "verif"}
	var err error
	s.rootBolt, err = util.OpenBolt(dir+string(os.PathSeparator)+"root.bolt", 0o600, nil)
	return s, err
}

func verifTempDir() string {
	d, err := os.MkdirTemp("", "verifidx")
	if err != nil {
		panic(err)
	}
	return d
}

// verifPersistedSnapshot builds a snapshot of one persisted stub segment (file written) at the epoch.
func verifPersistedSnapshot(s *Scorch, epoch uint64, segID uint64, ids []byte, internal map[string][]byte) *IndexSnapshot {
	fn := filepath.Join(s.path, zapFileName(segID))
	if err := verifWriteSegFile(fn, ids); err != nil {
		panic(err)
	}
	seg := &verifPSeg{verifSeg{n: len(ids), idOf: ids, refs: 1, path: fn}}
	return &IndexSnapshot{parent: s, refs: 1, epoch: epoch, internal: internal, creator: "verif",
		segment: []*SegmentSnapshot{{id: segID, segment: seg, stats: newFieldStats(), cachedDocs: &cachedDocs{cache: nil}, cachedMeta: newCachedMeta()}},
		offsets: []uint64{0}}
}
