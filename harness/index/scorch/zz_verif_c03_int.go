//go:build verif

package scorch

import (
	rt "github.com/blevesearch/bleve/v2/internal/verifrt"
)

// VerifH_C03_UvarintOrder: snapshot epochs are bolt keys; loadFromBolt takes the newest snapshot with
// cursor.Last(), which is only right if the byte order of encoded keys is the numeric order of epochs,
// and rollback/cleanup decode them back. For all a, b uint64: a < b => enc(a) < enc(b) bytewise;
// dec(enc(a)) == a with an empty remainder and no error.
func VerifH_C03_UvarintOrder() {
	a, b := rt.U64("a"), rt.U64("b")
	ea := encodeUvarintAscending(nil, a)
	eb := encodeUvarintAscending(nil, b)
	rt.Assert(rt.LessBytes(ea, eb) == (a < b), "byte order of keys == numeric order")
	rt.Assert(rt.EqBytes(ea, eb) == (a == b), "distinct epochs have distinct keys")
	rest, v, err := decodeUvarintAscending(ea)
	rt.Assert(err == nil, "decode(encode(a)) has no error")
	rt.Assert(v == a, "decode(encode(a)) == a")
	rt.Assert(len(rest) == 0, "no remainder")
	rt.Cover(rt.And(a < b, len(ea) < len(eb)), "different-lengths")
	rt.Cover(rt.And(a < b, len(ea) == len(eb), len(ea) > 3), "same-length")
}

// VerifH_C03_UvarintDecodeRobust: decoding an arbitrary key of up to 9 bytes never panics, and when the
// key starts with a length byte the encoder can produce, the decoded value re-encodes to at most the
// bytes consumed.
func VerifH_C03_UvarintDecodeRobust() {
	n := rt.Choice("len", 10)
	k := rt.Bytes("k", n)
	rest, v, err := decodeUvarintAscending(k)
	if err == nil {
		used := len(k) - len(rest)
		rt.Assert(used >= 1, "consumed at least the length byte")
		if k[0] >= intZero {
			re := encodeUvarintAscending(nil, v)
			rt.Assert(len(re) <= used, "canonical encoding is not longer than what was consumed")
		}
		rt.Cover(used == 9, "nine-bytes")
	}
}
