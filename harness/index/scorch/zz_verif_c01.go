//go:build verif

package scorch

import (
	rt "github.com/blevesearch/bleve/v2/internal/verifrt"
	segment "github.com/blevesearch/scorch_segment_api/v2"
)

// verifBatch: a symbolic batch over the first nIDs letters: per id none / upsert / delete, plus an
// internal op on key "k". Returns the id list (in a symbolic order for two ids), the new segment
// (upserted ids at doc numbers 0..), and the ops.
type verifBatchT struct {
	op      []int // per letter: 0 none, 1 upsert, 2 delete
	ids     []string
	seg     *verifSeg
	intOp   int // 0 none, 1 set, 2 delete
	intVal  byte
	intOps  map[string][]byte
}

func verifBatch(nIDs int) *verifBatchT {
	b := &verifBatchT{op: make([]int, nIDs)}
	var up []byte
	for x := 0; x < nIDs; x++ {
		b.op[x] = rt.Choice("op", 3)
		if b.op[x] != 0 {
			b.ids = append(b.ids, string([]byte{'a' + byte(x)}))
		}
		if b.op[x] == 1 {
			up = append(up, 'a'+byte(x))
		}
	}
	if len(b.ids) == 2 && rt.Choice("swap_ids", 2) == 1 {
		b.ids[0], b.ids[1] = b.ids[1], b.ids[0]
	}
	if len(up) > 0 {
		b.seg = &verifSeg{n: len(up), idOf: up, refs: 1}
	}
	b.intOp = rt.Choice("int_op", 3)
	b.intVal = rt.U8("int_val")
	if b.intOp != 0 {
		b.intOps = map[string][]byte{}
		if b.intOp == 1 {
			b.intOps["k"] = []byte{b.intVal}
		} else {
			b.intOps["k"] = nil
		}
	}
	return b
}

// verifCheckApplied asserts that newRoot is oldRoot with the batch applied, last write wins.
func verifCheckApplied(oldLive []int, oldInt []byte, newRoot *IndexSnapshot, b *verifBatchT, nIDs int) {
	total := 0
	for x := 0; x < nIDs; x++ {
		got := verifLive(newRoot, 'a'+byte(x))
		switch b.op[x] {
		case 0:
			rt.Assert(got == oldLive[x], "an id the batch does not mention keeps its state")
		case 1:
			rt.Assert(got == 1, "an upserted id is live exactly once (the new version)")
		case 2:
			rt.Assert(got == 0, "a deleted id is not live")
		}
		total += got
	}
	dc, err := newRoot.DocCount()
	rt.Assert(err == nil, "DocCount")
	rt.Assert(dc == uint64(total), "DocCount is the number of live ids")
	// the new version of an upserted id is the one in the batch's segment
	if b.seg != nil {
		last := newRoot.segment[len(newRoot.segment)-1]
		rt.Assert(last.segment == segment.Segment(b.seg), "the batch's segment is appended last")
		rt.Assert(last.deleted == nil, "the batch's own documents are live")
	}
	v, err := newRoot.GetInternal([]byte("k"))
	rt.Assert(err == nil, "GetInternal")
	switch b.intOp {
	case 0:
		rt.Assert(rt.EqBytes(v, oldInt), "internal value untouched")
	case 1:
		rt.Assert(rt.And(len(v) == 1, rt.EqBytes(v, []byte{b.intVal})), "internal value set")
	case 2:
		rt.Assert(v == nil, "internal value deleted")
	}
	verifWellFormed(newRoot, nIDs, "new root")
	for _, ss := range newRoot.segment[:len(newRoot.segment)] {
		if b.seg == nil || ss.segment != segment.Segment(b.seg) {
			rt.Assert(ss.LiveSize() > 0, "segments without live documents are dropped")
		}
	}
}

// verifPrepare runs the real prepareSegment in a goroutine and receives the introduction it sends,
// so that the harness can apply it (or delay it) the way the introducer loop would.
func verifPrepare(s *Scorch, data segment.Segment, ids []string, intOps map[string][]byte) *segmentIntroduction {
	go func() { _ = s.prepareSegment(data, ids, intOps, nil) }()
	return <-s.introductions
}

func verifSetup(nsegs, maxDocs, nIDs int) (*Scorch, *IndexSnapshot, []int, []byte) {
	s := verifNewScorch()
	root, _ := verifSymRoot(s, nsegs, maxDocs, nIDs)
	var oldInt []byte
	if rt.Choice("has_int", 2) == 1 {
		oldInt = []byte{rt.U8("old_int")}
		root.internal["k"] = oldInt
	}
	oldLive := make([]int, nIDs)
	for x := 0; x < nIDs; x++ {
		oldLive[x] = verifLive(root, 'a'+byte(x))
	}
	return s, root, oldLive, oldInt
}

// VerifH_C01_IntroduceStep: one introduceSegment step from an arbitrary well-formed root.
// The obsoletes map is either complete (computed against this root, as prepareSegment does) or lacks
// the entry of one segment (the root changed since: introduceSegment must recompute it).
func VerifH_C01_IntroduceStep() {
	verifIntroduceStep(rt.Param("ids", 2), rt.Param("max_segs", 2), rt.Param("max_docs", 2))
}

// VerifH_C04_IntroduceStepWide: the same step on one wider segment (up to 3 documents over 3 ids), so
// that a segment can carry more deletions than the batch adds to it (bitmaps of different sizes).
func VerifH_C04_IntroduceStepWide() {
	verifIntroduceStep(3, 1, rt.Param("max_docs", 3))
}

func verifIntroduceStep(nIDs, maxSegs, maxDocs int) {
	nsegs := rt.Choice("nsegs", maxSegs+1)
	s, root, oldLive, oldInt := verifSetup(nsegs, maxDocs, nIDs)
	root.AddRef() // a reader keeps the old snapshot
	b := verifBatch(nIDs)
	var data segment.Segment
	if b.seg != nil {
		data = b.seg
	}
	// the introduction is built by the real prepareSegment (obsoletes computed against this root);
	// the harness takes the introducer's place on the channel
	next := verifPrepare(s, data, b.ids, b.intOps)
	stale := -1
	if nsegs > 0 && rt.Choice("stale", 2) == 1 {
		// the root changed since the batch was prepared: the segment's entry is not in the map
		stale = rt.Choice("stale_seg", nsegs)
		delete(next.obsoletes, root.segment[stale].id)
	}
	err := s.introduceSegment(next)
	rt.Assert(err == nil, "introduceSegment succeeds")
	newRoot := s.root
	rt.Assert(newRoot != root, "a new snapshot is installed")
	rt.Assert(newRoot.epoch > root.epoch, "epoch increases")
	verifCheckApplied(oldLive, oldInt, newRoot, b, nIDs)
	// the reader's snapshot is untouched
	for x := 0; x < nIDs; x++ {
		rt.Assert(verifLive(root, 'a'+byte(x)) == oldLive[x], "a snapshot held by a reader does not change")
	}
	ov, _ := root.GetInternal([]byte("k"))
	rt.Assert(rt.EqBytes(ov, oldInt), "a reader's internal values do not change")
	rt.Cover(rt.And(nsegs == 2, len(b.ids) == 2, stale >= 0), "stale-two-segments")
	rt.Cover(rt.And(nsegs >= 1, b.seg != nil, len(newRoot.segment) == 1), "old-segment-fully-obsoleted")
}

// VerifH_C01_BatchThroughLoop: the same through the real prepareSegment and the real introducerLoop
// running as a goroutine (channels, applied notification), two batches in a row.
func VerifH_C01_BatchThroughLoop() {
	nIDs := rt.Param("ids", 2)
	nsegs := rt.Choice("nsegs", rt.Param("max_segs", 1)+1)
	s, _, oldLive, oldInt := verifSetup(nsegs, rt.Param("max_docs", 2), nIDs)
	s.asyncTasks.Add(1)
	go s.introducerLoop()
	for round := 0; round < rt.Param("batches", 2); round++ {
		b := verifBatch(nIDs)
		var data segment.Segment
		if b.seg != nil {
			data = b.seg
		}
		err := s.prepareSegment(data, b.ids, b.intOps, nil)
		rt.Assert(err == nil, "prepareSegment succeeds")
		cur := s.currentSnapshot()
		verifCheckApplied(oldLive, oldInt, cur, b, nIDs)
		for x := 0; x < nIDs; x++ {
			oldLive[x] = verifLive(cur, 'a'+byte(x))
		}
		oldInt, _ = cur.GetInternal([]byte("k"))
		_ = cur.DecRef()
	}
	close(s.closeCh)
	s.asyncTasks.Wait()
	rt.Cover(oldLive[0] == 1, "id-a-live-at-end")
}
