//go:build verif

package scorch

import (
	"github.com/RoaringBitmap/roaring/v2"
	rt "github.com/blevesearch/bleve/v2/internal/verifrt"
	index "github.com/blevesearch/bleve_index_api"
	segment "github.com/blevesearch/scorch_segment_api/v2"
)

// verifNSeg: a stub segment with nested documents. parent[k] is the doc number of k's parent or -1
// for a root document; children come after their parent (as zap lays them out) and carry no _id of
// their own (idOf 0), so DocNumbers finds root documents only.
type verifNSeg struct {
	verifSeg
	parent []int
}

func (s *verifNSeg) Ancestors(docNum uint64, prealloc []index.AncestorID) []index.AncestorID {
	k := int(docNum)
	for k >= 0 && k < s.n {
		prealloc = append(prealloc, index.NewAncestorID(uint64(k)))
		k = s.parent[k]
	}
	return prealloc
}

func (s *verifNSeg) rootOf(k int) int {
	for s.parent[k] >= 0 {
		k = s.parent[k]
	}
	return k
}

func (s *verifNSeg) CountRoot(deleted *roaring.Bitmap) uint64 {
	del := rt.BitmapBits(deleted)
	var c uint64
	for k := 0; k < s.n; k++ {
		if s.parent[k] < 0 {
			c += rt.IteU64(del>>uint(k)&1 == 0, 1, 0)
		}
	}
	return c
}

func (s *verifNSeg) AddNestedDocuments(deleted *roaring.Bitmap) *roaring.Bitmap {
	if deleted == nil {
		return nil
	}
	del := rt.BitmapBits(deleted)
	out := del
	for k := 0; k < s.n; k++ {
		if s.parent[k] >= 0 {
			r := s.rootOf(k)
			out |= rt.IteU64(del>>uint(r)&1 == 1, uint64(1)<<uint(k), 0)
		}
	}
	return rt.BitmapFromBits(out)
}

var verifNestedLayouts = [][]int{
	{-1, 0, 0},  // one parent with two nested elements
	{-1, 0, -1}, // a parent with one element, then a plain document
	{-1, -1},    // two plain documents
	{-1, 0, 1},  // two nesting levels
}

// VerifH_C20_IntroduceNested: introduceSegment over segments holding nested documents (symbolic
// parent ids, symbolic deletions closed under "parent deleted <=> elements deleted"), a symbolic
// batch and a complete or stale obsoletes map: deleting or replacing a parent removes all its
// nested elements with it, DocCount counts parents only, and the closure invariant holds again.
func VerifH_C20_IntroduceNested() {
	nIDs := 2
	s := verifNewScorch()
	nsegs := rt.Choice("nsegs", rt.Param("max_segs", 2)) + 1
	root := &IndexSnapshot{parent: s, refs: 1, internal: map[string][]byte{}, creator: "verif"}
	var running uint64
	var nsegl []*verifNSeg
	for i := 0; i < nsegs; i++ {
		lay := verifNestedLayouts[rt.Choice("layout", len(verifNestedLayouts))]
		n := len(lay)
		seg := &verifNSeg{verifSeg: verifSeg{n: n, idOf: make([]byte, n), refs: 1}, parent: lay}
		for k := 0; k < n; k++ {
			if lay[k] < 0 {
				seg.idOf[k] = rt.U8("idof")
				rt.Assume(rt.And(seg.idOf[k] >= 'a', seg.idOf[k] < 'a'+byte(nIDs)))
			}
		}
		del := rt.U64("deleted")
		rt.Assume(del>>uint(n) == 0)
		rt.Assume(del != uint64(1)<<uint(n)-1)
		for k := 0; k < n; k++ {
			if lay[k] >= 0 {
				r := seg.rootOf(k)
				rt.Assume((del>>uint(k))&1 == (del>>uint(r))&1)
			}
		}
		ss := &SegmentSnapshot{id: uint64(i + 1), segment: seg, stats: newFieldStats(), cachedDocs: &cachedDocs{cache: nil}, cachedMeta: newCachedMeta(), creator: "verif"}
		if rt.Choice("has_deleted", 2) == 1 {
			rt.Assume(del != 0)
			ss.deleted = rt.BitmapFromBits(del)
		} else {
			rt.Assume(del == 0)
		}
		root.segment = append(root.segment, ss)
		root.offsets = append(root.offsets, running)
		running += uint64(n)
		nsegl = append(nsegl, seg)
	}
	for x := 0; x < nIDs; x++ {
		rt.Assume(verifLive(root, 'a'+byte(x)) <= 1)
	}
	s.root = root
	oldLive := make([]int, nIDs)
	for x := 0; x < nIDs; x++ {
		oldLive[x] = verifLive(root, 'a'+byte(x))
	}
	b := verifBatch(nIDs)
	var data segment.Segment
	if b.seg != nil {
		data = b.seg
	}
	next := verifPrepare(s, data, b.ids, b.intOps) // built by the real prepareSegment
	stale := -1
	if rt.Choice("stale", 2) == 1 {
		stale = rt.Choice("stale_seg", nsegs)
		delete(next.obsoletes, root.segment[stale].id)
	}
	rt.Assert(s.introduceSegment(next) == nil, "introduceSegment succeeds")
	newRoot := s.root
	verifCheckApplied(oldLive, nil, newRoot, b, nIDs)
	for _, ss := range newRoot.segment {
		ns, ok := ss.segment.(*verifNSeg)
		if !ok {
			continue
		}
		del := rt.BitmapBits(ss.deleted)
		for k := 0; k < ns.n; k++ {
			if ns.parent[k] >= 0 {
				r := ns.rootOf(k)
				rt.Assert((del>>uint(k))&1 == (del>>uint(r))&1, "a nested element is deleted exactly when its parent document is")
			}
		}
	}
	rt.Cover(rt.And(stale >= 0, len(b.ids) >= 1), "stale-obsoletes-with-nested")
	_ = nsegl
}
