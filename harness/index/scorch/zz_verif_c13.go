//go:build verif

package scorch

import (
	"os"

	rt "github.com/blevesearch/bleve/v2/internal/verifrt"
	"github.com/blevesearch/bleve/v2/util"
)

// epochs straddling the points where the ascending key encoding changes length
var verifEpochs = []uint64{3, 108, 109, 110, 255, 256, 70000}

// VerifH_C13_Rollback: k snapshots are written by the real persistSnapshotDirect at ascending epochs
// (chosen among values around the key-length boundaries), each carrying a symbolic sequence number in
// an internal key. RollbackPoints lists exactly those snapshots, newest first, with their own values;
// Rollback to any of them removes exactly the younger ones and nothing else; the real loadFromBolt
// then opens the index at the chosen point with its sequence number; rolling back to a point that is
// not there fails and changes nothing.
func VerifH_C13_Rollback() {
	dir := verifTempDir()
	defer os.RemoveAll(dir)
	s, err := verifDiskScorch(dir)
	rt.Assert(err == nil, "open bolt")
	k := rt.Choice("snapshots", rt.Param("max_snapshots", 3)) + 1
	var epochs []uint64
	var seqs []byte
	// segment ids: normally ascending with the snapshots, but an older snapshot may hold a higher id
	// than the newest one (segments whose documents were all deleted drop out of later snapshots)
	oldHigh := rt.Choice("old_snapshot_has_highest_segment_id", 2) == 1
	var maxSegID uint64
	idx := -1
	for i := 0; i < k; i++ {
		// strictly ascending choice of epochs
		idx = idx + 1 + rt.Choice("epoch_gap", 2)
		if idx >= len(verifEpochs) {
			idx = len(verifEpochs) - 1 - (k - 1 - i)
		}
		e := verifEpochs[idx]
		if len(epochs) > 0 && e <= epochs[len(epochs)-1] {
			e = epochs[len(epochs)-1] + 1
		}
		seq := rt.U8("seq")
		segID := uint64(i + 1)
		if oldHigh && i == 0 {
			segID = 9
		}
		if segID > maxSegID {
			maxSegID = segID
		}
		snap := verifPersistedSnapshot(s, e, segID, []byte{'a'}, map[string][]byte{"seq": {seq}})
		rt.Assert(s.persistSnapshotDirect(snap) == nil, "persistSnapshotDirect")
		epochs = append(epochs, e)
		seqs = append(seqs, seq)
	}
	rt.Assert(s.rootBolt.Close() == nil, "close bolt")

	points, err := RollbackPoints(dir)
	rt.Assert(err == nil, "RollbackPoints")
	rt.Assert(len(points) == k, "one rollback point per persisted snapshot")
	for i, p := range points {
		j := k - 1 - i
		if j >= 0 && j < k {
			rt.Assert(p.epoch == epochs[j], "rollback points are listed newest first")
			rt.Assert(rt.EqBytes(p.GetInternal([]byte("seq")), []byte{seqs[j]}), "a rollback point carries the internal values of its own snapshot")
		}
	}
	if len(points) != k {
		return
	}
	// a point that does not exist
	missing := &RollbackPoint{epoch: epochs[k-1] + 5}
	rt.Assert(Rollback(dir, missing) != nil, "rolling back to an unknown point fails")
	again, _ := RollbackPoints(dir)
	rt.Assert(len(again) == k, "a failed rollback changes nothing")

	t := rt.Choice("target", k) // index into epochs
	var target *RollbackPoint
	for _, p := range points {
		if p.epoch == epochs[t] {
			target = p
		}
	}
	rt.Assert(Rollback(dir, target) == nil, "Rollback succeeds")
	after, err := RollbackPoints(dir)
	rt.Assert(err == nil, "RollbackPoints after rollback")
	rt.Assert(len(after) == t+1, "exactly the snapshots younger than the target are gone")
	for i, p := range after {
		j := t - i
		if j >= 0 {
			rt.Assert(p.epoch == epochs[j], "older snapshots are untouched")
			rt.Assert(rt.EqBytes(p.GetInternal([]byte("seq")), []byte{seqs[j]}), "older snapshots keep their values")
		}
	}
	// reopen: the index comes up at the chosen point
	s2, err := verifDiskScorch(dir)
	rt.Assert(err == nil, "reopen bolt")
	rt.Assert(s2.loadFromBolt() == nil, "loadFromBolt")
	rt.Assert(s2.root.epoch == epochs[t], "the reopened index is at the rollback point")
	rt.Assert(rt.EqBytes(s2.root.internal["seq"], []byte{seqs[t]}), "the reopened index has the rollback point's internal values")
	rt.Assert(s2.nextSnapshotEpoch == epochs[t]+1, "new snapshots continue after the rollback point")
	rt.Assert(len(s2.root.segment) == 1, "the rollback point's segment is loaded")
	rt.Assert(s2.nextSegmentID > maxSegID, "segments written after reopening never take the file name of a segment file that exists (a retained rollback point may still need it)")
	_ = s2.rootBolt.Close()
	rt.Cover(rt.And(k == 3, t == 1), "middle-point")
	rt.Cover(rt.And(k >= 2, t == 0), "oldest-point")
	rt.Cover(rt.And(k >= 2, t >= 1, oldHigh), "older-snapshot-holds-highest-segment-id")
	_ = util.BoltSnapshotsBucket
}
