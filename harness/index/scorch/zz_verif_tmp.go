//go:build verif

package scorch

import (
	"context"

	rt "github.com/blevesearch/bleve/v2/internal/verifrt"
)

func VerifH_TMP_Ctx() {
	ctx, cancel := context.WithCancel(context.Background())
	cancel()
	select {
	case <-ctx.Done():
		rt.Assert(ctx.Err() != nil, "err set")
	default:
		rt.Fail("cancelled context is not done")
	}
	ctx2, cancel2 := context.WithCancel(context.Background())
	d := ctx2.Done()
	cancel2()
	select {
	case <-d:
	default:
		rt.Fail("cancelled context 2 is not done")
	}
}
