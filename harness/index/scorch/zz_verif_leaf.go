//go:build verif

package scorch

import (
	"context"

	"github.com/RoaringBitmap/roaring/v2"
	rt "github.com/blevesearch/bleve/v2/internal/verifrt"
	index "github.com/blevesearch/bleve_index_api"
	segment "github.com/blevesearch/scorch_segment_api/v2"
)

// ---- stub segments with term postings, following zap's iterator contract ----
//
// A term of a segment is absent (zap hands out a non-optimizable empty iterator), regular (postings
// in a bitmap; ActualBitmap = postings minus the excluded documents) or "1-hit" encoded (exactly one
// posting; ActualBitmap is nil, DocNum1Hit reports it unless that document is excluded).

const (
	verifAbsent = iota
	verifRegular
	verifOneHit
)

type verifTSeg struct {
	verifSeg
	enc  map[string]int
	bits map[string]uint64
}

func (s *verifTSeg) Dictionary(field string) (segment.TermDictionary, error) {
	return &verifTDict{s: s}, nil
}

type verifTDict struct{ s *verifTSeg }

func (d *verifTDict) PostingsList(term []byte, except *roaring.Bitmap, prealloc segment.PostingsList) (segment.PostingsList, error) {
	t := string(term)
	exc := rt.BitmapBits(except)
	return &verifTPL{n: d.s.n, enc: d.s.enc[t], bits: d.s.bits[t] &^ exc}, nil
}
func (d *verifTDict) AutomatonIterator(a segment.Automaton, s, e []byte) segment.DictionaryIterator {
	return nil
}
func (d *verifTDict) Contains(key []byte) (bool, error) { return d.s.enc[string(key)] != verifAbsent, nil }
func (d *verifTDict) Cardinality() int                  { return len(d.s.enc) }

type verifTPL struct {
	n    int
	enc  int
	bits uint64
}

func (p *verifTPL) Iterator(includeFreq, includeNorm, includeLocations bool, prealloc segment.PostingsIterator) segment.PostingsIterator {
	if p.enc == verifAbsent {
		return &verifEmptyPI{}
	}
	it := &verifTPI{n: p.n, bits: p.bits, oneHit: p.enc == verifOneHit}
	if !it.oneHit {
		it.actualBM = rt.BitmapFromBits(p.bits)
	}
	return it
}
func (p *verifTPL) Size() int { return 8 }
func (p *verifTPL) Count() uint64 {
	c := 0
	for k := 0; k < p.n; k++ {
		c += rt.IteInt(p.bits>>uint(k)&1 == 1, 1, 0)
	}
	return uint64(c)
}
func (p *verifTPL) BytesRead() uint64     { return 0 }
func (p *verifTPL) ResetBytesRead(uint64) {}
func (p *verifTPL) BytesWritten() uint64  { return 0 }

type verifTPosting struct{ num uint64 }

func (p *verifTPosting) Number() uint64                { return p.num }
func (p *verifTPosting) Frequency() uint64             { return 1 }
func (p *verifTPosting) Norm() float64                 { return 1 }
func (p *verifTPosting) Locations() []segment.Location { return nil }
func (p *verifTPosting) Size() int                     { return 8 }

type verifEmptyPI struct{}

func (i *verifEmptyPI) Next() (segment.Posting, error)            { return nil, nil }
func (i *verifEmptyPI) Advance(uint64) (segment.Posting, error)   { return nil, nil }
func (i *verifEmptyPI) Size() int                                 { return 0 }
func (i *verifEmptyPI) BytesRead() uint64                         { return 0 }
func (i *verifEmptyPI) ResetBytesRead(uint64)                     {}
func (i *verifEmptyPI) BytesWritten() uint64                      { return 0 }

type verifTPI struct {
	n        int
	bits     uint64
	oneHit   bool
	cur      uint64
	actualBM *roaring.Bitmap
}

func (i *verifTPI) Next() (segment.Posting, error) {
	// first set bit at or after cur, without forking per bit
	found := false
	var num uint64
	for k := 0; k < i.n; k++ {
		hit := rt.And(!found, uint64(k) >= i.cur, i.bits>>uint(k)&1 == 1)
		num = rt.IteU64(hit, uint64(k), num)
		found = rt.Or(found, hit)
	}
	if !found {
		i.cur = uint64(i.n)
		return nil, nil
	}
	i.cur = num + 1
	return &verifTPosting{num: num}, nil
}
func (i *verifTPI) Advance(docNum uint64) (segment.Posting, error) {
	i.cur = rt.IteU64(docNum > i.cur, docNum, i.cur)
	return i.Next()
}
func (i *verifTPI) Size() int             { return 8 }
func (i *verifTPI) BytesRead() uint64     { return 0 }
func (i *verifTPI) ResetBytesRead(uint64) {}
func (i *verifTPI) BytesWritten() uint64  { return 0 }
func (i *verifTPI) ActualBitmap() *roaring.Bitmap {
	if i.oneHit {
		return nil
	}
	return i.actualBM
}
func (i *verifTPI) DocNum1Hit() (uint64, bool) {
	if !i.oneHit || i.bits == 0 {
		return 0, false
	}
	var d uint64
	for k := 0; k < i.n; k++ {
		d += rt.IteU64(i.bits>>uint(k)&1 == 1, uint64(k), 0)
	}
	return d, true
}
func (i *verifTPI) ReplaceActual(bm *roaring.Bitmap) {
	i.actualBM = bm
	i.bits = rt.BitmapBits(bm)
}

var verifTerms = []string{"x", "y", "z"}

// verifTermRoot builds a snapshot of nsegs stub segments with symbolic postings for nterms terms and
// symbolic deleted bitmaps. Returns per segment and term the live postings (bit k = local doc k).
func verifTermRoot(s *Scorch, nsegs, maxDocs, nterms int) (*IndexSnapshot, [][]uint64, []int) {
	root := &IndexSnapshot{parent: s, refs: 1, internal: map[string][]byte{}, creator: "verif"}
	var live [][]uint64
	var sizes []int
	var running uint64
	for i := 0; i < nsegs; i++ {
		n := maxDocs
		if rt.Param("fixed_docs", 0) == 0 {
			n = rt.Choice("ndocs", maxDocs) + 1
		}
		seg := &verifTSeg{verifSeg: verifSeg{n: n, idOf: make([]byte, n), refs: 1}, enc: map[string]int{}, bits: map[string]uint64{}}
		del := rt.U64("deleted")
		rt.Assume(del>>uint(n) == 0)
		ss := &SegmentSnapshot{id: uint64(i + 1), segment: seg, stats: newFieldStats(), cachedDocs: &cachedDocs{cache: nil}, cachedMeta: newCachedMeta(), creator: "verif"}
		if rt.Choice("has_deleted", 2) == 1 {
			ss.deleted = rt.BitmapFromBits(del)
			rt.Assume(del != 0)
		} else {
			rt.Assume(del == 0)
		}
		var lv []uint64
		for t := 0; t < nterms; t++ {
			enc := rt.Choice("encoding", 3)
			b := rt.U64("postings")
			rt.Assume(b>>uint(n) == 0)
			switch enc {
			case verifAbsent:
				rt.Assume(b == 0)
			case verifRegular:
				rt.Assume(b != 0)
			case verifOneHit:
				rt.Assume(rt.And(b != 0, b&(b-1) == 0))
			}
			seg.enc[verifTerms[t]] = enc
			seg.bits[verifTerms[t]] = b
			lv = append(lv, b&^del)
		}
		live = append(live, lv)
		sizes = append(sizes, n)
		root.segment = append(root.segment, ss)
		root.offsets = append(root.offsets, running)
		running += uint64(n)
	}
	s.root = root
	return root, live, sizes
}

// verifFirstAtOrAfter: the smallest global doc number >= lb whose bit is set in set (per segment
// bits), or total if there is none.
func verifFirstAtOrAfter(set []uint64, sizes []int, lb uint64) uint64 {
	var total uint64
	for _, n := range sizes {
		total += uint64(n)
	}
	res := total
	var off uint64
	found := false
	for i, n := range sizes {
		for k := 0; k < n; k++ {
			g := off + uint64(k)
			hit := rt.And(!found, set[i]>>uint(k)&1 == 1, g >= lb)
			res = rt.IteU64(hit, g, res)
			found = rt.Or(found, hit)
		}
		off += uint64(n)
	}
	return res
}

// verifDriveTFR runs a program of Next / forward Advance calls against a term field reader and
// asserts the iteration contract against the expected set of global doc numbers.
func verifDriveTFR(tfr index.TermFieldReader, want []uint64, sizes []int, calls int, what string) {
	var total uint64
	for _, n := range sizes {
		total += uint64(n)
	}
	lb := uint64(0)
	for c := 0; c < calls; c++ {
		var got *index.TermFieldDoc
		var err error
		target := lb
		if rt.Choice("op", 2) == 0 {
			got, err = tfr.Next(nil)
		} else {
			t := uint64(rt.U8("target"))
			rt.Assume(rt.And(t >= lb, t < total))
			target = t
			got, err = tfr.Advance(index.NewIndexInternalID(nil, t), nil)
			rt.Cover(t > lb && c > 0, "advance-skips-ahead")
		}
		rt.Assert(err == nil, what+": no error")
		exp := verifFirstAtOrAfter(want, sizes, target)
		if got == nil {
			rt.Assert(exp == total, what+": the reader ends only when no match is left at or after the bound")
			lb = total
			if total > 0 {
				// an exhausted reader stays exhausted
				g2, _ := tfr.Next(nil)
				rt.Assert(g2 == nil, what+": an exhausted reader stays exhausted")
			}
			return
		}
		id := got.ID.Value()
		rt.Assert(id == exp, what+": the result is the first match at or after the bound")
		rt.Assume(id == exp)
		lb = id + 1
	}
}

// VerifH_C08_LeafReader: the real IndexSnapshot.TermFieldReader / IndexSnapshotTermFieldReader over a
// snapshot of stub segments with symbolic postings, encodings and deleted documents: every program
// of Next / forward Advance calls yields exactly the live postings, ascending, Advance landing on the
// first one at or after its target (also across segment boundaries).
func VerifH_C08_LeafReader() {
	s := verifNewScorch()
	root, live, sizes := verifTermRoot(s, rt.Param("segs", 2), rt.Param("max_docs", 2), 1)
	tfr, err := root.TermFieldReader(context.Background(), []byte("x"), "f", false, false, false)
	rt.Assert(err == nil, "TermFieldReader opens")
	var want []uint64
	for i := range live {
		want = append(want, live[i][0])
	}
	verifDriveTFR(tfr, want, sizes, rt.Param("calls", 3), "term reader")
	rt.Assert(tfr.Close() == nil, "Close succeeds")
}

// VerifH_C02_Unadorned: scorch's composite optimisations. Term field readers of 2-3 terms over the
// same symbolic snapshot are handed to the real Optimize/Finish of the unadorned disjunction, the
// unadorned conjunction and the (adorned) conjunction; the resulting reader (or, for the adorned
// conjunction, each narrowed reader) is driven by every program of Next / forward Advance calls and
// must yield exactly the union / intersection of the live postings (narrowed readers: a set between
// the intersection and the term's own postings).
func VerifH_C02_Unadorned() {
	s := verifNewScorch()
	nterms := rt.Param("terms", 2)
	root, live, sizes := verifTermRoot(s, rt.Param("segs", 2), rt.Param("max_docs", 2), nterms)
	kinds := []string{"disjunction:unadorned", "conjunction:unadorned", "conjunction"}
	kind := rt.Choice("kind", 3)
	var tfrs []index.TermFieldReader
	var octx index.OptimizableContext
	for t := 0; t < nterms; t++ {
		tfr, err := root.TermFieldReader(context.Background(), []byte(verifTerms[t]), "f", false, false, false)
		rt.Assert(err == nil, "TermFieldReader opens")
		tfrs = append(tfrs, tfr)
		o, ok := tfr.(index.Optimizable)
		rt.Assert(ok, "term field readers are optimizable")
		octx, err = o.Optimize(kinds[kind], octx)
		rt.Assert(err == nil && octx != nil, "Optimize accepts the reader")
	}
	opt, err := octx.Finish()
	rt.Assert(err == nil, "Finish succeeds")
	var union, inter []uint64
	for i := range live {
		u, a := uint64(0), ^uint64(0)
		for t := 0; t < nterms; t++ {
			u |= live[i][t]
			a &= live[i][t]
		}
		union = append(union, u)
		inter = append(inter, a&(uint64(1)<<uint(sizes[i])-1))
	}
	calls := rt.Param("calls", 3)
	if opt != nil {
		otfr, ok := opt.(index.TermFieldReader)
		rt.Assert(ok, "the optimised result is a term field reader")
		rt.Assert(kind != 2, "the adorned conjunction narrows in place")
		if kind == 0 {
			rt.Cover(true, "disjunction-optimised")
			verifDriveTFR(otfr, union, sizes, calls, "unadorned disjunction")
		} else {
			rt.Cover(true, "conjunction-optimised")
			verifDriveTFR(otfr, inter, sizes, calls, "unadorned conjunction")
		}
		return
	}
	// not optimised (or narrowed in place): every reader still yields a set between the intersection
	// and its own postings, ascending; read with Next only
	which := rt.Choice("reader", nterms)
	var total uint64
	for _, n := range sizes {
		total += uint64(n)
	}
	lb := uint64(0)
	var seen []uint64
	for range sizes {
		seen = append(seen, 0)
	}
	for {
		got, err := tfrs[which].Next(nil)
		rt.Assert(err == nil, "Next succeeds")
		if got == nil {
			break
		}
		id := got.ID.Value()
		rt.Assert(rt.And(id >= lb, id < total), "narrowed reader: ascending ids")
		lb = id + 1
		var off uint64
		for i, n := range sizes {
			for k := 0; k < n; k++ {
				is := id == off+uint64(k)
				rt.Assert(rt.Implies(is, live[i][which]>>uint(k)&1 == 1), "narrowed reader: only the term's own live postings")
				seen[i] |= rt.IteU64(is, uint64(1)<<uint(k), 0)
			}
			off += uint64(n)
		}
	}
	for i := range sizes {
		rt.Assert(inter[i]&^seen[i] == 0, "narrowed reader: no document of the intersection is lost")
	}
	rt.Cover(kind == 2, "adorned-conjunction")
}

// VerifH_C08_DocIDReader: the real IndexSnapshot.DocIDReaderAll / DocIDReaderOnly and
// IndexSnapshotDocIDReader.Next/Advance (what match-all and doc-id searchers iterate) over a snapshot
// of 2-3 stub segments with symbolic ids and deleted documents: every program of Next / forward
// Advance calls yields exactly the live documents (All) or the live documents carrying one of the
// requested ids (Only), ascending, Advance landing on the first one at or after its target - also
// when the target's segment has nothing left and the next match lies in a later segment.
func VerifH_C08_DocIDReader() {
	s := verifNewScorch()
	nIDs := 2
	nsegs := rt.Param("segs", 2)
	root, segs := verifSymRoot(s, nsegs, rt.Param("max_docs", 2), nIDs)
	only := rt.Choice("only", 2) == 1
	var ids []string
	wantA, wantB := false, false
	if only {
		wantA = rt.Choice("want_a", 2) == 1
		wantB = rt.Choice("want_b", 2) == 1
		if wantA {
			ids = append(ids, "a")
		}
		if wantB {
			ids = append(ids, "b")
		}
		ids = append(ids, "zz") // an id no document has
	}
	var want []uint64
	var sizes []int
	for i, ss := range root.segment {
		st := segs[i]
		del := rt.BitmapBits(ss.deleted)
		var bits uint64
		for k := 0; k < st.n; k++ {
			sel := rt.Or(!only, rt.And(wantA, st.idOf[k] == 'a'), rt.And(wantB, st.idOf[k] == 'b'))
			bits |= rt.IteU64(rt.And(sel, (del>>uint(k))&1 == 0), uint64(1)<<uint(k), 0)
		}
		want = append(want, bits)
		sizes = append(sizes, st.n)
	}
	var r index.DocIDReader
	var err error
	if only {
		r, err = root.DocIDReaderOnly(ids)
	} else {
		r, err = root.DocIDReaderAll()
	}
	rt.Assert(err == nil, "doc id reader opens")
	rt.Cover(rt.And(only, nsegs >= 2, wantA, !wantB), "only-some-ids")
	var total uint64
	for _, n := range sizes {
		total += uint64(n)
	}
	lb := uint64(0)
	for c := 0; c < rt.Param("calls", 3); c++ {
		var got index.IndexInternalID
		target := lb
		if rt.Choice("op", 2) == 0 {
			got, err = r.Next()
		} else {
			t := uint64(rt.U8("target"))
			rt.Assume(rt.And(t >= lb, t < total))
			target = t
			got, err = r.Advance(index.NewIndexInternalID(nil, t))
			rt.Cover(t > lb && c > 0, "advance-skips-ahead")
		}
		rt.Assert(err == nil, "doc id reader: no error")
		exp := verifFirstAtOrAfter(want, sizes, target)
		if got == nil {
			rt.Assert(exp == total, "doc id reader: it ends only when no document is left at or after the bound")
			return
		}
		id := got.Value()
		rt.Assert(id == exp, "doc id reader: the result is the first document at or after the bound")
		rt.Assume(id == exp)
		lb = id + 1
	}
}
