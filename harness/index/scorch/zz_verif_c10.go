//go:build verif

package scorch

import (
	"github.com/RoaringBitmap/roaring/v2"
	rt "github.com/blevesearch/bleve/v2/internal/verifrt"
	index "github.com/blevesearch/bleve_index_api"
	segment "github.com/blevesearch/scorch_segment_api/v2"
)

// verifDVSeg: a stub segment without persisted doc values: two fields (f, g) with two terms (x, y)
// each, term postings given by symbolic bit sets; scorch has to "uninvert" the dictionary into its
// per-segment doc value cache (cachedDocs) to answer doc value requests.
type verifDVSeg struct {
	verifSeg
	post map[string]map[string]uint64 // field -> term -> postings bits
}

func (s *verifDVSeg) Fields() []string { return []string{"f", "g"} }
func (s *verifDVSeg) Dictionary(field string) (segment.TermDictionary, error) {
	return &verifDVDict{s: s, field: field}, nil
}

type verifDVDict struct {
	s     *verifDVSeg
	field string
}

func (d *verifDVDict) PostingsList(term []byte, except *roaring.Bitmap, prealloc segment.PostingsList) (segment.PostingsList, error) {
	b := d.s.post[d.field][string(term)]
	enc := verifRegular
	return &verifTPL{n: d.s.n, enc: enc, bits: b &^ rt.BitmapBits(except)}, nil
}
func (d *verifDVDict) AutomatonIterator(a segment.Automaton, s, e []byte) segment.DictionaryIterator {
	var terms []string
	if _, ok := d.s.post[d.field]; ok {
		terms = []string{"x", "y"}
	}
	return &verifDVDictIter{terms: terms}
}
func (d *verifDVDict) Contains(key []byte) (bool, error) { return true, nil }
func (d *verifDVDict) Cardinality() int                  { return 2 }
func (d *verifDVDict) BytesRead() uint64                 { return 0 }

type verifDVDictIter struct {
	terms []string
	cur   int
}

func (i *verifDVDictIter) Next() (*index.DictEntry, error) {
	if i.cur >= len(i.terms) {
		return nil, nil
	}
	t := i.terms[i.cur]
	i.cur++
	return &index.DictEntry{Term: t, Count: 1}, nil
}

// VerifH_C10_DocValues: what facets and field sorts read. Two doc value requests in a row on the same
// snapshot (each for f, for g or for both - the second may need a field the first did not), over a
// stub segment whose doc values scorch has to derive from the term dictionary: every request visits,
// for every document, exactly the terms of exactly the requested fields - whatever was requested
// (and cached) before.
func VerifH_C10_DocValues() {
	s := verifNewScorch()
	n := 2
	seg := &verifDVSeg{verifSeg: verifSeg{n: n, idOf: []byte{'a', 'b'}, refs: 1}, post: map[string]map[string]uint64{}}
	for _, f := range []string{"f", "g"} {
		seg.post[f] = map[string]uint64{}
		for _, t := range []string{"x", "y"} {
			b := rt.U64("postings")
			rt.Assume(b>>uint(n) == 0)
			seg.post[f][t] = b
		}
	}
	ss := &SegmentSnapshot{id: 1, segment: seg, stats: newFieldStats(), cachedDocs: &cachedDocs{cache: nil}, cachedMeta: newCachedMeta(), creator: "verif"}
	root := &IndexSnapshot{parent: s, refs: 1, internal: map[string][]byte{}, creator: "verif", segment: []*SegmentSnapshot{ss}, offsets: []uint64{0}}
	sets := [][]string{{"f"}, {"g"}, {"f", "g"}, {"g", "f"}}
	first := rt.Choice("first_request", len(sets))
	second := rt.Choice("second_request", len(sets))
	for _, req := range []int{first, second} {
		fields := sets[req]
		r, err := root.DocValueReader(fields)
		rt.Assert(err == nil, "doc value reader opens")
		for d := 0; d < n; d++ {
			seen := map[string]bool{}
			err := r.VisitDocValues(index.NewIndexInternalID(nil, uint64(d)), func(field string, term []byte) {
				seen[field+":"+string(term)] = true
			})
			rt.Assert(err == nil, "VisitDocValues")
			for _, f := range []string{"f", "g"} {
				wanted := false
				for _, w := range fields {
					wanted = wanted || w == f
				}
				for _, t := range []string{"x", "y"} {
					has := seg.post[f][t]>>uint(d)&1 == 1
					if wanted {
						rt.Assert(seen[f+":"+t] == has, "a requested field's terms are visited exactly for the documents that have them")
					} else {
						rt.Assert(!seen[f+":"+t], "fields that were not requested are not visited")
					}
				}
			}
		}
	}
	rt.Cover(rt.And(first == 0, second == 2, seg.post["g"]["x"] != 0), "second-request-needs-one-more-field")
}
