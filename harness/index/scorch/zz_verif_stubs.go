//go:build verif

package scorch

import (
	"github.com/RoaringBitmap/roaring/v2"
	rt "github.com/blevesearch/bleve/v2/internal/verifrt"
	segment "github.com/blevesearch/scorch_segment_api/v2"
)

// verifSeg is a stub segment: n documents, document k has the one-letter external id idOf[k]
// (possibly symbolic). It implements exactly the part of the segment contract that scorch's
// snapshot bookkeeping relies on: Count, DocNumbers (the documents carrying one of the ids),
// DocID, reference counting.
type verifSeg struct {
	n      int    // capacity: number of id slots
	cnt    uint64 // Count(); equals n except for merged segments whose size is symbolic
	symCnt bool
	idOf   []byte
	refs   int
	closed int
	path   string
}

func (s *verifSeg) Dictionary(field string) (segment.TermDictionary, error) { return nil, nil }
func (s *verifSeg) VisitStoredFields(num uint64, visitor segment.StoredFieldValueVisitor) error {
	return nil
}
func (s *verifSeg) DocID(num uint64) ([]byte, error) {
	if num >= s.Count() {
		return nil, nil
	}
	return []byte{s.idOf[num]}, nil
}
func (s *verifSeg) Count() uint64 {
	if s.symCnt {
		return s.cnt
	}
	return uint64(s.n)
}
func (s *verifSeg) DocNumbers(ids []string) (*roaring.Bitmap, error) {
	var bits uint64
	for k := 0; k < s.n; k++ {
		hit := false
		for _, id := range ids {
			if len(id) == 1 {
				hit = rt.Or(hit, id[0] == s.idOf[k])
			}
		}
		hit = rt.And(hit, uint64(k) < s.Count())
		bits |= rt.IteU64(hit, uint64(1)<<uint(k), 0)
	}
	return rt.BitmapFromBits(bits), nil
}
func (s *verifSeg) Fields() []string { return []string{"_id"} }
func (s *verifSeg) Close() error     { s.closed++; return nil }
func (s *verifSeg) Size() int        { return 8 }
func (s *verifSeg) AddRef()          { s.refs++ }
func (s *verifSeg) DecRef() error {
	s.refs--
	if s.refs == 0 {
		return s.Close()
	}
	return nil
}
func (s *verifSeg) BytesRead() uint64      { return 0 }
func (s *verifSeg) ResetBytesRead(uint64)  {}
func (s *verifSeg) BytesWritten() uint64   { return 0 }

// verifPSeg is the persisted flavour.
type verifPSeg struct {
	verifSeg
}

func (s *verifPSeg) Path() string { return s.path }

const verifAlphabet = "abc"

// verifSymSeg makes a segment of n documents with symbolic ids from the first nIDs letters.
func verifSymSeg(n, nIDs int) *verifSeg {
	s := &verifSeg{n: n, idOf: rt.Bytes("idof", n), refs: 1}
	for k := 0; k < n; k++ {
		rt.Assume(rt.And(s.idOf[k] >= 'a', s.idOf[k] < 'a'+byte(nIDs)))
	}
	return s
}

// verifNewScorch builds an in-memory Scorch with just the state the introducer works on.
func verifNewScorch() *Scorch {
	s := &Scorch{
		nextSnapshotEpoch:    1,
		nextSegmentID:        100,
		ineligibleForRemoval: map[string]bool{},
		copyScheduled:        map[string]int{},
		closeCh:              make(chan struct{}),
		introductions:        make(chan *segmentIntroduction),
		persists:             make(chan *persistIntroduction),
		merges:               make(chan *segmentMerge),
		introducerNotifier:   make(chan *epochWatcher, 1),
		persisterNotifier:    make(chan *epochWatcher, 1),
		unsafeBatch:          true,
	}
	return s
}

// verifSymRoot builds a root snapshot of nsegs stub segments with symbolic ids and symbolic
// deleted bitmaps, assuming the representation invariant: deleted bits only below Count, every id
// live at most once across the snapshot, offsets are running sums, segments have a live document.
func verifSymRoot(s *Scorch, nsegs, maxDocs, nIDs int) (*IndexSnapshot, []*verifSeg) {
	root := &IndexSnapshot{parent: s, refs: 1, epoch: 0, internal: map[string][]byte{}, creator: "verif"}
	var segs []*verifSeg
	var running uint64
	for i := 0; i < nsegs; i++ {
		n := rt.Choice("ndocs", maxDocs) + 1
		seg := verifSymSeg(n, nIDs)
		del := rt.U64("deleted")
		rt.Assume(del>>uint(n) == 0)
		rt.Assume(del != uint64(1)<<uint(n)-1) // a segment without live documents is never kept in a root
		ss := &SegmentSnapshot{id: uint64(i + 1), segment: seg, stats: newFieldStats(), cachedDocs: &cachedDocs{cache: nil}, cachedMeta: newCachedMeta(), creator: "verif"}
		if rt.Choice("has_deleted", 2) == 1 {
			ss.deleted = rt.BitmapFromBits(del)
			rt.Assume(del != 0)
		} else {
			rt.Assume(del == 0)
		}
		root.segment = append(root.segment, ss)
		root.offsets = append(root.offsets, running)
		running += uint64(n)
		segs = append(segs, seg)
	}
	for x := 0; x < nIDs; x++ {
		rt.Assume(verifLive(root, 'a'+byte(x)) <= 1)
	}
	s.root = root
	s.nextSnapshotEpoch = 1
	return root, segs
}

// verifLive counts the live documents with external id x in a snapshot (read directly from the
// snapshot's segments and deleted bitmaps).
func verifStub(seg segment.Segment) *verifSeg {
	switch t := seg.(type) {
	case *verifSeg:
		return t
	case *verifPSeg:
		return &t.verifSeg
	case *verifUSeg:
		return &t.verifSeg
	case *verifCUSeg:
		return &t.verifSeg
	case *verifSizedSeg:
		return &t.verifSeg
	case *verifNSeg:
		return &t.verifSeg
	}
	return nil
}

func verifLive(is *IndexSnapshot, x byte) int {
	c := 0
	for _, ss := range is.segment {
		del := rt.BitmapBits(ss.deleted)
		st := verifStub(ss.segment)
		cnt := st.Count()
		for k := 0; k < st.n; k++ {
			live := rt.And(del>>uint(k)&1 == 0, uint64(k) < cnt)
			c += rt.IteInt(rt.And(live, st.idOf[k] == x), 1, 0)
		}
	}
	return c
}

// verifWellFormed asserts the representation invariant of a snapshot.
func verifWellFormed(is *IndexSnapshot, nIDs int, what string) {
	var running uint64
	rt.Assert(len(is.offsets) == len(is.segment), what+": one offset per segment")
	for i, ss := range is.segment {
		n := ss.segment.Count()
		del := rt.BitmapBits(ss.deleted)
		rt.Assert(rt.Or(n >= 64, del>>(n&63) == 0), what+": deleted bits lie below the segment's document count")
		if i < len(is.offsets) {
			rt.Assert(is.offsets[i] == running, what+": offsets are the running sums of segment sizes")
		}
		running += n
	}
	for x := 0; x < nIDs; x++ {
		rt.Assert(verifLive(is, 'a'+byte(x)) <= 1, what+": an id is live at most once")
	}
}
