//go:build verif

package mergeplan

import (
	rt "github.com/blevesearch/bleve/v2/internal/verifrt"
)

type verifPlanSeg struct {
	id         uint64
	full, live int64
}

func (s *verifPlanSeg) Id() uint64          { return s.id }
func (s *verifPlanSeg) FullSize() int64     { return s.full }
func (s *verifPlanSeg) LiveSize() int64     { return s.live }
func (s *verifPlanSeg) HasVector() bool     { return false }
func (s *verifPlanSeg) FileSize() int64     { return s.full * 10 }
func (s *verifPlanSeg) LiveFileSize() int64 { return s.live * 10 }

// VerifH_C05_Plan: the merge planner on up to max_segs segments with symbolic full/live sizes and
// symbolic options, with the budget and scoring hooks returning arbitrary values: every segment is
// assigned to at most one task (a segment merged twice would duplicate its documents), every task
// consists of input segments, no task merges a single fully-live segment with nothing, and planning
// terminates.
func VerifH_C05_Plan() { verifPlan(false) }

// VerifH_C05_PlanSkips: four segments already in planning order (live sizes descending), three
// segments per task, always over budget: the family in which a roster can skip a segment that would
// overflow the maximum merged size and pick a later, smaller one.
func VerifH_C05_PlanSkips() { verifPlan(true) }

func verifPlan(skips bool) {
	n := rt.Choice("nsegs", rt.Param("max_segs", 3)+1)
	if skips {
		n = 4
	}
	segs := make([]Segment, n)
	stubs := make([]*verifPlanSeg, n)
	for i := 0; i < n; i++ {
		s := &verifPlanSeg{id: uint64(i + 1), full: rt.I64("full"), live: rt.I64("live")}
		rt.Assume(rt.And(s.full >= 1, s.full <= 50, s.live >= 0, s.live <= s.full))
		if skips && i > 0 {
			rt.Assume(rt.And(s.live >= 1, s.live < stubs[i-1].live))
		}
		stubs[i] = s
		segs[i] = s
	}
	o := &MergePlanOptions{
		MaxSegmentsPerTier:   int(rt.I64("per_tier")),
		MaxSegmentSize:       rt.I64("max_seg_size"),
		TierGrowth:           2.0,
		SegmentsPerMergeTask: rt.Choice("per_task", 3) + 1,
		FloorSegmentSize:     rt.I64("floor"),
		ReclaimDeletesWeight: 2.0,
	}
	if skips {
		o.SegmentsPerMergeTask = 3
		o.MaxSegmentsPerTier = 2
		o.FloorSegmentSize = 1
	}
	rt.Assume(rt.And(o.MaxSegmentsPerTier >= 1, o.MaxSegmentsPerTier <= 4, o.MaxSegmentSize >= 2, o.MaxSegmentSize <= 200, o.FloorSegmentSize >= 1, o.FloorSegmentSize <= 50))
	o.CalcBudget = func(totalSize int64, firstTierSize int64, o *MergePlanOptions) int {
		if skips {
			return 0
		}
		b := rt.I64("budget")
		rt.Assume(rt.And(b >= 0, b <= 8))
		return int(b)
	}
	o.ScoreSegments = func(segments []Segment, o *MergePlanOptions) float64 {
		f := rt.F64("score")
		rt.Assume(f == f)
		return f
	}
	p, err := plan(segs, o)
	rt.Assert(err == nil, "no error")
	if p == nil {
		rt.Assert(n <= 1, "a plan is produced for two or more segments")
		return
	}
	used := make([]int, n)
	for _, t := range p.Tasks {
		rt.Assert(len(t.Segments) >= 1, "no empty task")
		for _, s := range t.Segments {
			found := false
			for i := range stubs {
				if s == Segment(stubs[i]) {
					used[i]++
					found = true
				}
			}
			rt.Assert(found, "tasks contain only input segments")
		}
		if len(t.Segments) == 1 {
			s := t.Segments[0]
			rt.Assert(s.LiveSize() < s.FullSize(), "a single segment is only rewritten when it has deletes to reclaim")
		}
	}
	for i := range used {
		rt.Assert(used[i] <= 1, "a segment is assigned to at most one merge task")
	}
	rt.Cover(len(p.Tasks) >= 2, "two-tasks")
	if skips {
		nonContig := false
		for _, t := range p.Tasks {
			in := make([]bool, n)
			for _, sg := range t.Segments {
				for i := range stubs {
					if sg == Segment(stubs[i]) {
						in[i] = true
					}
				}
			}
			for i := 0; i < n; i++ {
				for j := i + 1; j < n; j++ {
					for k := j + 1; k < n; k++ {
						if in[i] && !in[j] && in[k] {
							nonContig = true
						}
					}
				}
			}
		}
		rt.Cover(nonContig, "roster-skipped-a-segment")
	}
}
