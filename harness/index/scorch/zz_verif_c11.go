//go:build verif

package scorch

import (
	"context"
	"math"
	"os"
	"time"

	"github.com/blevesearch/bleve/v2/index/scorch/mergeplan"
	rt "github.com/blevesearch/bleve/v2/internal/verifrt"
	segment "github.com/blevesearch/scorch_segment_api/v2"
)

// VerifH_C11_ScorchLifecycle: a disk-backed scorch (bolt and file system models, stub segment plugin)
// with its three real background loops - introducerLoop, persisterLoop, mergerLoop - running, driven
// by a symbolic program of calls: batches (safe or unsafe mode), forced merges with a background
// context, forced merges whose context is cancelled while the merge is being written, then the real
// Close. Every call returns, Close returns (all three loops have stopped), nothing panics and no
// goroutine is left blocked for ever; a forced merge issued after a cancelled one completes too.
// The persister's "wait for the merger" pause is exercised with PersisterNapUnderNumFiles = 1.
func VerifH_C11_ScorchLifecycle() {
	dir := verifTempDir()
	defer os.RemoveAll(dir)
	safe := rt.Choice("safe_batch", 2) == 1
	s := verifStartDisk(dir, safe)
	s.persisterOptions = &persisterOptions{NumPersisterWorkers: 1, MemoryPressurePauseThreshold: math.MaxUint64,
		PersisterNapUnderNumFiles: rt.Choice("nap_under_num_files", 2), PersisterNapTimeMSec: rt.Choice("nap_msec", 2)}
	s.forceMergeRequestCh = make(chan *mergerCtrl, 1)
	// no automatic merges (a tier holds far more segments than the program creates): only the forced
	// merges of the program merge, so that what a call does not depend on the background merger's pace
	mpo := mergeplan.DefaultMergePlanOptions
	mpo.MaxSegmentsPerTier = 1000
	mpo.FloorSegmentSize = 1
	s.mergePlannerOptions = &mpo
	// the merger may be arbitrarily slow: in one variant it never gets to run at all, so that the
	// persister's waits for it are exercised deterministically (natively too)
	// (only with unsafe batches: a safe batch legitimately waits for a persister that waits for the merger)
	mergerRuns := safe || rt.Choice("merger_runs", 2) == 1
	s.asyncTasks.Add(2)
	go s.introducerLoop()
	go s.persisterLoop()
	if mergerRuns {
		s.asyncTasks.Add(1)
		go s.mergerLoop()
	}
	defer func() { verifMergeHook, verifMergeAwaitCancel = nil, false }()
	steps := rt.Param("steps", 3)
	cancelled, mergedAfterCancel, hookFired := false, false, false
	nextID := byte('a')
	for i := 0; i < steps; i++ {
		nc := 3
		if !mergerRuns {
			nc = 1 // forced merges need the merger
		}
		switch rt.Choice("call", nc) {
		case 0:
			ids := []byte{nextID}
			nextID++
			seg := &verifCUSeg{verifSeg{n: 1, idOf: ids, refs: 1}}
			rt.Assert(s.prepareSegment(seg, []string{string(ids)}, nil, nil) == nil, "batch accepted")
		case 1:
			rt.Assert(s.ForceMerge(context.Background(), nil) == nil, "forced merge returns")
			if cancelled {
				mergedAfterCancel = true
			}
		case 2:
			ctx, cancel := context.WithCancel(context.Background())
			verifMergeHook = func() {
				verifMergeHook = nil
				hookFired = true
				cancel()
				verifMergeAwaitCancel = true // the stub merge waits until the cancellation has arrived
			}
			rt.Assert(s.ForceMerge(ctx, nil) == nil, "forced merge with a context that gets cancelled returns")
			verifMergeHook = nil
			cancel()
			cancelled = true
		}
		time.Sleep(10 * time.Millisecond) // let the background loops catch up before the next call
	}
	time.Sleep(20 * time.Millisecond) // let the background loops reach their waits (symbolically: run until blocked)
	rt.Assert(s.Close() == nil, "Close returns")
	rt.Assert(s.rootBolt == nil, "the metadata store is closed")
	rt.Cover(mergedAfterCancel, "forced-merge-after-a-cancelled-one")
	// (whether the cancellation arrives while the merge is being written depends on timing natively;
	// symbolically both happen: checked once with cover points, not kept as replayed witnesses)
	_ = hookFired
	rt.Cover(rt.And(s.persisterOptions.PersisterNapUnderNumFiles == 1, nextID >= 'c'), "close-with-persister-pause-enabled")
	_ = segment.ErrClosed
}
