//go:build verif

package scorch

import (
	rt "github.com/blevesearch/bleve/v2/internal/verifrt"
)

// VerifH_C05_GlobalLocal: the global <-> (segment, local) document number mapping that every
// layout-independent answer rests on: for offsets that are running sums of positive segment sizes,
// a global number below the total maps to the segment that contains it and back.
func VerifH_C05_GlobalLocal() {
	n := rt.Choice("nsegs", rt.Param("max_segs", 3)) + 1
	is := &IndexSnapshot{}
	var running uint64
	counts := make([]uint64, n)
	for i := 0; i < n; i++ {
		counts[i] = rt.U64("count")
		rt.Assume(rt.And(counts[i] >= 1, counts[i] <= 1<<40))
		is.offsets = append(is.offsets, running)
		running += counts[i]
	}
	g := rt.U64("global")
	rt.Assume(g < running)
	si, local := is.segmentIndexAndLocalDocNumFromGlobal(g)
	rt.Assert(rt.And(si >= 0, si < n), "segment index in range")
	if si >= 0 && si < n {
		rt.Assert(local < counts[si], "local number below the segment's size")
		rt.Assert(is.offsets[si]+local == g, "offset + local == global")
	}
	rt.Cover(rt.And(n == 3, si == 1), "middle-segment")
}

// verifSizedSeg is an in-memory stub segment with a symbolic Size().
type verifSizedSeg struct {
	verifSeg
	size int
}

func (s *verifSizedSeg) Size() int { return s.size }

// VerifH_C05_FlushSet: how persistSnapshotMaybeMerge groups the in-memory segments of a snapshot into
// batches for the in-memory merge workers (the prefix of the function up to the call of
// mergeAndPersistInMemorySegments, taken mechanically from the current source): whatever the sizes
// and the worker options, the batches partition the unpersisted segments in order, and every batch
// keeps, position by position, each segment together with its own deleted bitmap and its own
// snapshot - a batch that merges a segment with another segment's deletions would resurrect or lose
// documents.
func VerifH_C05_FlushSet() {
	n := rt.Choice("nsegs", rt.Param("max_segs", 4)) + 1
	s := verifNewScorch()
	snap := &IndexSnapshot{parent: s, refs: 1, internal: map[string][]byte{}}
	var unp []*SegmentSnapshot
	for i := 0; i < n; i++ {
		ss := &SegmentSnapshot{id: uint64(i + 1), stats: newFieldStats(), cachedDocs: &cachedDocs{cache: nil}, cachedMeta: newCachedMeta()}
		if rt.Choice("persisted", 2) == 1 {
			ss.segment = &verifPSeg{verifSeg{n: 1, idOf: []byte{'a'}, refs: 1, path: "/idx/x.zap"}}
		} else {
			sz := rt.Int("size")
			rt.Assume(rt.And(sz >= 0, sz <= 1000))
			ss.segment = &verifSizedSeg{verifSeg{n: 2, idOf: []byte{'a', 'b'}, refs: 1}, sz}
			unp = append(unp, ss)
		}
		if rt.Choice("has_deleted", 2) == 1 {
			ss.deleted = rt.BitmapFromBits(1)
		}
		snap.segment = append(snap.segment, ss)
	}
	po := &persisterOptions{NumPersisterWorkers: rt.Choice("workers", 3) + 1, MaxSizeInMemoryMergePerWorker: rt.Int("max_size")}
	rt.Assume(rt.And(po.MaxSizeInMemoryMergePerWorker >= 0, po.MaxSizeInMemoryMergePerWorker <= 2000))
	fs := s.verifFlushSet(snap, po)
	if len(unp) < DefaultMinSegmentsForInMemoryMerge {
		rt.Assert(len(fs) == 0, "nothing to flush below the minimum number of in-memory segments")
		return
	}
	k := 0
	for _, f := range fs {
		rt.Assert(len(f.sbsBatch) >= 1, "no empty batch")
		rt.Assert(rt.And(len(f.sbsBatch) == len(f.sbsBatchDrops), len(f.sbsBatch) == len(f.sbsBatchSnapshots)), "the three lists of a batch have the same length")
		for j := range f.sbsBatch {
			if k < len(unp) && j < len(f.sbsBatchDrops) && j < len(f.sbsBatchSnapshots) {
				rt.Assert(f.sbsBatchSnapshots[j] == unp[k], "batches hold the in-memory segments in snapshot order, each once")
				rt.Assert(f.sbsBatch[j] == unp[k].segment, "a batch entry's segment is its snapshot's segment")
				rt.Assert(f.sbsBatchDrops[j] == unp[k].deleted, "a batch entry's deletions are its own segment's deletions")
			}
			k++
		}
	}
	rt.Assert(k == len(unp), "every in-memory segment is in exactly one batch")
	rt.Cover(len(fs) >= 2, "two-batches")
}
