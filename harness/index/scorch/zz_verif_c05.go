//go:build verif

package scorch

import (
	rt "github.com/blevesearch/bleve/v2/internal/verifrt"
)

// VerifH_C05_GlobalLocal: the global <-> (segment, local) document number mapping that every
// layout-independent answer rests on: for offsets that are running sums of positive segment sizes,
// a global number below the total maps to the segment that contains it and back.
func VerifH_C05_GlobalLocal() {
	n := rt.Choice("nsegs", rt.Param("max_segs", 3)) + 1
	is := &IndexSnapshot{}
	var running uint64
	counts := make([]uint64, n)
	for i := 0; i < n; i++ {
		counts[i] = rt.U64("count")
		rt.Assume(rt.And(counts[i] >= 1, counts[i] <= 1<<40))
		is.offsets = append(is.offsets, running)
		running += counts[i]
	}
	g := rt.U64("global")
	rt.Assume(g < running)
	si, local := is.segmentIndexAndLocalDocNumFromGlobal(g)
	rt.Assert(rt.And(si >= 0, si < n), "segment index in range")
	if si >= 0 && si < n {
		rt.Assert(local < counts[si], "local number below the segment's size")
		rt.Assert(is.offsets[si]+local == g, "offset + local == global")
	}
	rt.Cover(rt.And(n == 3, si == 1), "middle-segment")
}
