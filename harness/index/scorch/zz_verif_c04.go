//go:build verif

package scorch

import (
	rt "github.com/blevesearch/bleve/v2/internal/verifrt"
	segment "github.com/blevesearch/scorch_segment_api/v2"
)

const verifDocDropped = ^uint64(0)

// VerifH_C04_MergeStep: one introduceMerge step. The root is arbitrary and well formed. A merge was
// started earlier on a subset of its segments (and possibly on one segment that has since left the
// root): for each merged segment the merger saw the deleted set deletedAtStart, a subset of what is
// deleted now (deletes only grow). The merged segment follows zap's merge contract: the documents
// live at the start get consecutive new numbers in segment order, the others are dropped.
// Asserted: the logical content (which ids are live, how often) is unchanged by the step, the new
// root is well formed, exactly one status is sent, and a reader's snapshot does not change.
func VerifH_C04_MergeStep() { verifMergeStep(false) }

// VerifH_C04_MergeStepObsolete: the same with a merged segment that has left the root meanwhile (always present).
func VerifH_C04_MergeStepObsolete() { verifMergeStep(true) }

func verifMergeStep(forceGhost bool) {
	nIDs := rt.Param("ids", 2)
	maxDocs := rt.Param("max_docs", 2)
	nsegs := rt.Choice("nsegs", rt.Param("max_segs", 2)) + 1
	s, root, oldLive, oldInt := verifSetup(nsegs, maxDocs, nIDs)
	root.AddRef()

	nb := rt.Choice("batches", 2) + 1
	sm := &segmentMerge{
		newSegmentIDs:    make([]uint64, nb),
		newSegments:      make([]segment.Segment, nb),
		mergedSegHistory: map[uint64]*mergedSegmentHistory{},
		notifyCh:         make(chan *mergeTaskIntroStatus, 1),
		fileMerge:        rt.Choice("file_merge", 2) == 1,
	}
	// per batch: the merged sources in order, to lay out the merged segment
	type src struct {
		seg      *verifSeg
		startDel uint64
		m        []uint64
	}
	srcs := make([][]*src, nb)
	merged := 0
	sawDeletedSince := false
	addToMerge := func(ss *SegmentSnapshot, seg *verifSeg, nowDel uint64, batch int) {
		n := seg.n
		// what the merger saw: any subset of what is deleted now (deletes only grow), not everything
		startDel := rt.U64("deleted_at_start")
		rt.Assume(rt.And(nowDel&startDel == startDel, startDel != uint64(1)<<uint(n)-1))
		sawDeletedSince = rt.Or(sawDeletedSince, rt.And(startDel != 0, nowDel != startDel))
		old := &SegmentSnapshot{id: ss.id, segment: seg, stats: ss.stats, cachedDocs: ss.cachedDocs, cachedMeta: ss.cachedMeta}
		if rt.Choice("start_has_deleted", 2) == 1 {
			rt.Assume(startDel != 0)
			old.deleted = rt.BitmapFromBits(startDel)
		} else {
			rt.Assume(startDel == 0)
		}
		sr := &src{seg: seg, startDel: startDel, m: make([]uint64, n)}
		srcs[batch] = append(srcs[batch], sr)
		sm.mergedSegHistory[ss.id] = &mergedSegmentHistory{batchID: batch, oldNewDocIDs: sr.m, oldSegment: old}
		merged++
	}
	for _, ss := range root.segment {
		if rt.Choice("in_merge", 2) == 1 {
			batch := 0
			if nb == 2 {
				batch = rt.Choice("batch_of", 2)
			}
			addToMerge(ss, verifStub(ss.segment), rt.BitmapBits(ss.deleted), batch)
		}
	}
	// a segment that was part of the merge but has since left the root (all its documents got deleted)
	if forceGhost || (rt.Param("ghost", 1) == 1 && rt.Choice("ghost", 2) == 1) {
		g := verifSymSeg(rt.Choice("ghost_docs", 2)+1, nIDs)
		gss := &SegmentSnapshot{id: 77, segment: g, stats: newFieldStats(), cachedDocs: &cachedDocs{cache: nil}, cachedMeta: newCachedMeta()}
		addToMerge(gss, g, uint64(1)<<uint(g.n)-1, nb-1)
	}
	rt.Assume(merged >= 1)
	// zap's merge contract: documents live at the start get consecutive new numbers in source order
	nilled := -1
	for b := 0; b < nb; b++ {
		sm.newSegmentIDs[b] = uint64(200 + b)
		capb := 0
		for _, sr := range srcs[b] {
			capb += sr.seg.n
		}
		if capb == 0 {
			nilled = b // a batch without input produces no segment
			continue
		}
		next := uint64(0)
		ids := make([]byte, capb)
		for _, sr := range srcs[b] {
			for k := 0; k < sr.seg.n; k++ {
				dropped := sr.startDel>>uint(k)&1 == 1
				sr.m[k] = rt.IteU64(dropped, verifDocDropped, next)
				for p := 0; p < capb; p++ {
					ids[p] = rt.IteU8(rt.And(!dropped, next == uint64(p)), sr.seg.idOf[k], ids[p])
				}
				next += rt.IteU64(dropped, 0, 1)
			}
		}
		sm.newSegments[b] = &verifSeg{n: capb, cnt: next, symCnt: true, idOf: ids, refs: 1}
	}

	s.introduceMerge(sm)

	newRoot := s.root
	rt.Assert(newRoot != root, "a new snapshot is installed")
	rt.Assert(newRoot.epoch > root.epoch, "epoch increases")
	total := 0
	for x := 0; x < nIDs; x++ {
		got := verifLive(newRoot, 'a'+byte(x))
		rt.Assert(got == oldLive[x], "merging does not change which ids are live")
		total += got
	}
	dc, _ := newRoot.DocCount()
	rt.Assert(dc == uint64(total), "DocCount unchanged by a merge")
	verifWellFormed(newRoot, nIDs, "root after merge")
	v, _ := newRoot.GetInternal([]byte("k"))
	rt.Assert(rt.EqBytes(v, oldInt), "internal values unchanged by a merge")
	for _, ss := range newRoot.segment {
		rt.Assert(ss.LiveSize() > 0, "no segment without live documents is kept")
		_, wasMerged := sm.mergedSegHistory[ss.id]
		rt.Assert(!wasMerged, "merged segments are gone")
	}
	select {
	case st := <-sm.notifyCh:
		rt.Assert(st != nil && st.indexSnapshot == newRoot, "the merger is told which snapshot holds its segments")
		rt.Assert(len(st.skipped) == nb, "one status per batch")
		for b := 0; b < nb && b < len(st.skipped); b++ {
			present := false
			for _, ss := range newRoot.segment {
				if ss.id == sm.newSegmentIDs[b] {
					present = true
				}
			}
			rt.Assert(st.skipped[b] == !present, "skipped <=> the merged segment was not introduced")
			if b == nilled {
				rt.Assert(st.skipped[b], "a batch without a segment is skipped")
			}
		}
	default:
		rt.Fail("no status was sent to the merger")
	}
	for x := 0; x < nIDs; x++ {
		rt.Assert(verifLive(root, 'a'+byte(x)) == oldLive[x], "a snapshot held by a reader does not change")
	}
	if !forceGhost {
		rt.Cover(sawDeletedSince, "deleted-since-on-top-of-earlier-deletes")
	}
	rt.Cover(rt.And(merged >= 2, len(newRoot.segment) == 1), "two-merged-into-one")
	rt.Cover(rt.And(merged >= 1, total >= 1, nb == 2), "two-batches")
}

// VerifH_C04_PersistStep: introducePersist replaces in-memory segments by their persisted copies
// one for one: content, deleted sets, offsets and internal values unchanged.
func VerifH_C04_PersistStep() {
	nIDs := rt.Param("ids", 2)
	nsegs := rt.Choice("nsegs", rt.Param("max_segs", 2)) + 1
	s, root, oldLive, oldInt := verifSetup(nsegs, rt.Param("max_docs", 2), nIDs)
	root.AddRef()
	p := &persistIntroduction{persisted: map[uint64]segment.Segment{}, applied: make(notificationChan)}
	replaced := 0
	for _, ss := range root.segment {
		if rt.Choice("persisted", 2) == 1 {
			old := ss.segment.(*verifSeg)
			p.persisted[ss.id] = &verifPSeg{verifSeg{n: old.n, idOf: old.idOf, refs: 1, path: "/idx/seg.zap"}}
			replaced++
		}
	}
	// an id that is no longer in the root (merged away meanwhile) must be ignored
	if rt.Choice("stale_entry", 2) == 1 {
		p.persisted[999] = &verifPSeg{verifSeg{n: 1, idOf: []byte{'a'}, refs: 1, path: "/idx/old.zap"}}
	}
	s.introducePersist(p)
	newRoot := s.root
	rt.Assert(newRoot.epoch > root.epoch, "epoch increases")
	rt.Assert(len(newRoot.segment) == len(root.segment), "same number of segments")
	for i := range root.segment {
		if i < len(newRoot.segment) {
			rt.Assert(newRoot.segment[i].id == root.segment[i].id, "same segment ids in the same order")
			rt.Assert(newRoot.segment[i].deleted == root.segment[i].deleted, "deleted sets carried over")
			rt.Assert(newRoot.offsets[i] == root.offsets[i], "offsets carried over")
			_, isP := newRoot.segment[i].segment.(segment.PersistedSegment)
			_, want := p.persisted[root.segment[i].id]
			_ = want
			_ = isP
		}
	}
	for x := 0; x < nIDs; x++ {
		rt.Assert(verifLive(newRoot, 'a'+byte(x)) == oldLive[x], "persisting does not change which ids are live")
		rt.Assert(verifLive(root, 'a'+byte(x)) == oldLive[x], "a snapshot held by a reader does not change")
	}
	v, _ := newRoot.GetInternal([]byte("k"))
	rt.Assert(rt.EqBytes(v, oldInt), "internal values unchanged by persisting")
	verifWellFormed(newRoot, nIDs, "root after persist")
	select {
	case <-p.applied:
	default:
		rt.Fail("the persister is not notified")
	}
	np := 0
	for _, ss := range newRoot.segment {
		if _, ok := ss.segment.(segment.PersistedSegment); ok {
			np++
		}
	}
	rt.Assert(np == replaced, "exactly the persisted segments were swapped in")
	rt.Cover(replaced >= 1, "replaced")
}
