//go:build verif

package scorch

import (
	"context"
	"os"
	"path/filepath"

	"github.com/blevesearch/bleve/v2/index/scorch/mergeplan"

	"github.com/RoaringBitmap/roaring/v2"
	rt "github.com/blevesearch/bleve/v2/internal/verifrt"
	segment "github.com/blevesearch/scorch_segment_api/v2"
)

func verifFileExists(path string) bool {
	_, err := os.ReadFile(path)
	return err == nil
}

// VerifH_C12_Purge: one purge round (the real removeOldData) from an arbitrary bookkeeping state:
// up to three snapshots written by the real persistSnapshotDirect, each naming its own segment file
// and possibly the previous snapshot's file too, a stray segment file nobody names, symbolic sets of
// epochs eligible for removal, of files marked ineligible for removal and of files scheduled for an
// online copy, symbolic number of snapshots to keep. Asserted afterwards:
//   - the newest snapshot and the configured number of newest snapshots are still recorded;
//   - only snapshots that were eligible for removal are gone;
//   - every file named by a snapshot that is still recorded exists (reopening cannot fail);
//   - a file marked ineligible or scheduled for copy exists;
//   - a segment file that nothing protects is gone (no accumulation).
func VerifH_C12_Purge() {
	dir := verifTempDir()
	defer os.RemoveAll(dir)
	s, err := verifDiskScorch(dir)
	rt.Assert(err == nil, "open bolt")
	k := rt.Choice("snapshots", rt.Param("max_snapshots", 3)) + 1
	s.numSnapshotsToKeep = rt.Choice("keep", 3) + 1
	names := make([][]string, k) // file names recorded by snapshot i
	for i := 0; i < k; i++ {
		epoch := uint64(10 + i)
		segID := uint64(i + 1)
		snap := verifPersistedSnapshot(s, epoch, segID, []byte{'a'}, map[string][]byte{})
		names[i] = []string{zapFileName(segID)}
		if i > 0 && rt.Choice("shares_previous_file", 2) == 1 {
			prev := uint64(i)
			fn := filepath.Join(dir, zapFileName(prev))
			seg := &verifPSeg{verifSeg{n: 1, idOf: []byte{'a'}, refs: 1, path: fn}}
			snap.segment = append(snap.segment, &SegmentSnapshot{id: prev, segment: seg, stats: newFieldStats(), cachedDocs: &cachedDocs{cache: nil}, cachedMeta: newCachedMeta()})
			snap.offsets = append(snap.offsets, 1)
			names[i] = append(names[i], zapFileName(prev))
		}
		rt.Assert(s.persistSnapshotDirect(snap) == nil, "persistSnapshotDirect")
		if rt.Choice("eligible", 2) == 1 {
			s.eligibleForRemoval = append(s.eligibleForRemoval, epoch)
		}
	}
	eligible := append([]uint64{}, s.eligibleForRemoval...)
	// a stray file, e.g. left by a merge that was never introduced
	stray := zapFileName(99)
	rt.Assert(verifWriteSegFile(filepath.Join(dir, stray), []byte{'z'}) == nil, "write stray")
	all := []string{stray}
	for i := 0; i < k; i++ {
		all = append(all, zapFileName(uint64(i+1)))
	}
	protectedBy := map[string]bool{}
	for _, f := range all {
		switch rt.Choice("guard", 3) {
		case 1:
			s.ineligibleForRemoval[f] = true
			protectedBy[f] = true
		case 2:
			s.copyScheduled[f] = 1
			protectedBy[f] = true
		}
	}

	s.removeOldData()

	meta, err := s.rootBoltSnapshotMetaData()
	rt.Assert(err == nil, "read snapshot metadata")
	remaining := map[uint64]bool{}
	for _, m := range meta {
		remaining[m.epoch] = true
	}
	rt.Assert(remaining[uint64(10+k-1)], "the newest snapshot is never removed")
	keep := s.numSnapshotsToKeep
	for i := k - 1; i >= 0 && i > k-1-keep; i-- {
		rt.Assert(remaining[uint64(10+i)], "the configured number of newest snapshots is kept")
	}
	for i := 0; i < k; i++ {
		e := uint64(10 + i)
		if !remaining[e] {
			was := false
			for _, x := range eligible {
				if x == e {
					was = true
				}
			}
			rt.Assert(was, "only snapshots that were eligible for removal are removed")
		}
	}
	named := map[string]bool{}
	for i := 0; i < k; i++ {
		if remaining[uint64(10+i)] {
			for _, f := range names[i] {
				named[f] = true
				rt.Assert(verifFileExists(filepath.Join(dir, f)), "a file named by a recorded snapshot exists")
			}
		}
	}
	for _, f := range all {
		if protectedBy[f] {
			rt.Assert(verifFileExists(filepath.Join(dir, f)), "a file marked ineligible for removal or scheduled for copy exists")
		}
		if !protectedBy[f] && !named[f] {
			rt.Assert(!verifFileExists(filepath.Join(dir, f)), "a segment file that nothing protects is removed")
		}
	}
	_ = s.rootBolt.Close()
	rt.Cover(rt.And(k == 3, len(meta) == 1), "two-snapshots-purged")
	rt.Cover(rt.And(k >= 2, len(meta) == k, len(eligible) >= 1), "eligible-but-protected")
}

// verifMixedRoot: a root whose segments are symbolically persisted (named NNNN.zap under /idx) or in memory.
func verifMixedRoot(s *Scorch, nsegs int) *IndexSnapshot {
	root := &IndexSnapshot{parent: s, refs: 1, internal: map[string][]byte{}, creator: "verif"}
	var running uint64
	for i := 0; i < nsegs; i++ {
		id := uint64(i + 1)
		ss := &SegmentSnapshot{id: id, stats: newFieldStats(), cachedDocs: &cachedDocs{cache: nil}, cachedMeta: newCachedMeta(), creator: "verif"}
		ids := []byte{'a' + byte(i)}
		if rt.Choice("persisted", 2) == 1 {
			// the file of a persisted segment is whatever its Path says: normally zapFileName(id), but an
			// index made by the offline builder (or renumbered on load) has files named otherwise
			fid := id
			if rt.Choice("odd_file_name", 2) == 1 {
				fid = id + 16
			}
			ss.segment = &verifPSeg{verifSeg{n: 1, idOf: ids, refs: 1, path: filepath.Join("/idx", zapFileName(fid))}}
		} else {
			ss.segment = &verifUSeg{verifSeg{n: 1, idOf: ids, refs: 1}}
		}
		root.segment = append(root.segment, ss)
		root.offsets = append(root.offsets, running)
		running++
	}
	s.root = root
	return root
}

func verifFileNameOf(ss *SegmentSnapshot) string {
	if st := verifStub(ss.segment); st != nil && st.path != "" {
		return filepath.Base(st.path)
	}
	return zapFileName(ss.id)
}

// VerifH_C12_CopyScheduled: the online-copy bookkeeping. While a copy reader is open, every file of its
// snapshot - for an in-memory segment the name it will get when persisted - is scheduled (count > 0),
// which is what stops the purge (VerifH_C12_Purge) from removing it; two overlapping copy readers
// compose (closing one keeps the other's files scheduled); after the last close the table is as before.
func VerifH_C12_CopyScheduled() {
	s := verifNewScorch()
	nsegs := rt.Choice("nsegs", rt.Param("max_segs", 2)) + 1
	root := verifMixedRoot(s, nsegs)
	var names []string
	for _, ss := range root.segment {
		names = append(names, verifFileNameOf(ss))
	}
	pre := rt.Choice("already_scheduled", 2) // another copy of the first file is already pending
	if pre == 1 {
		s.copyScheduled[names[0]] = 1
	}
	r1 := s.CopyReader()
	rt.Assert(r1 != nil, "copy reader 1")
	for _, n := range names {
		rt.Assert(s.copyScheduled[n] > 0, "every file of the snapshot being copied is scheduled")
	}
	r2 := s.CopyReader()
	rt.Assert(r2 != nil, "copy reader 2")
	first, second := r1, r2
	if rt.Choice("close_order", 2) == 1 {
		first, second = r2, r1
	}
	rt.Assert(first.CloseCopyReader() == nil, "close first copy reader")
	for _, n := range names {
		rt.Assert(s.copyScheduled[n] > 0, "files stay scheduled while another copy reader is open")
	}
	rt.Assert(second.CloseCopyReader() == nil, "close second copy reader")
	for i, n := range names {
		want := 0
		if i == 0 && pre == 1 {
			want = 1
		}
		rt.Assert(s.copyScheduled[n] == want, "after the last close the schedule is what it was before")
	}
	if pre == 0 {
		rt.Assert(len(s.copyScheduled) == 0, "no entry is left behind")
	}
	rt.Assert(root.refs == 1, "snapshot references are balanced")
	rt.Cover(nsegs == 2, "two-files")
}

// VerifH_C12_DroppedFiles: when a batch obsoletes every document of a persisted segment, the segment
// leaves the root and its file, if it was still marked ineligible for removal (a merge output not yet
// recorded in the metadata store), becomes removable: otherwise the file would stay forever.
// Files of segments that stay in the root keep their mark.
func VerifH_C12_DroppedFiles() {
	s := verifNewScorch()
	nsegs := rt.Choice("nsegs", rt.Param("max_segs", 2)) + 1
	root := verifMixedRoot(s, nsegs)
	marked := map[string]bool{}
	for _, ss := range root.segment {
		if rt.Choice("marked", 2) == 1 {
			n := verifFileNameOf(ss)
			s.ineligibleForRemoval[n] = true
			marked[n] = true
		}
	}
	// a batch deleting a symbolic subset of the ids (segment i holds the single id 'a'+i)
	var ids []string
	for i := 0; i < nsegs; i++ {
		if rt.Choice("delete", 2) == 1 {
			ids = append(ids, string([]byte{'a' + byte(i)}))
		}
	}
	next := &segmentIntroduction{id: 50, ids: ids, applied: make(chan error, 1), obsoletes: map[uint64]*roaring.Bitmap{}}
	for _, ss := range root.segment {
		d, _ := ss.segment.DocNumbers(ids)
		next.obsoletes[ss.id] = d
	}
	root.AddRef()
	rt.Assert(s.introduceSegment(next) == nil, "introduceSegment")
	inNew := map[uint64]bool{}
	for _, ss := range s.root.segment {
		inNew[ss.id] = true
	}
	dropped := 0
	for _, ss := range root.segment {
		n := verifFileNameOf(ss)
		_, isP := ss.segment.(segment.PersistedSegment)
		if !inNew[ss.id] {
			dropped++
			if isP {
				rt.Assert(!s.ineligibleForRemoval[n], "the file of a persisted segment that left the root is no longer protected from removal")
			}
		} else {
			rt.Assert(s.ineligibleForRemoval[n] == marked[n], "files of segments that stay keep their mark")
		}
	}
	rt.Cover(dropped >= 1, "a-segment-dropped")
}

// VerifH_C12_OpenedSegmentsClosed: a persist round (real persistSnapshotDirect, prepareBoltSnapshot,
// introducePersist through the real introducerLoop) over two in-memory segments while a batch
// arrives between the writing of a segment file and the persist introduction (the batch may obsolete
// a whole segment, which then never enters the root). Afterwards every segment file that was opened
// is either held by the current root or has been closed again: no open file is left behind that
// Close would not reach.
func VerifH_C12_OpenedSegmentsClosed() {
	dir := verifTempDir()
	defer os.RemoveAll(dir)
	s := verifStartDisk(dir, false)
	verifTrackOpened, verifOpenedSegs = true, nil
	defer func() { verifTrackOpened, verifOpenedSegs = false, nil }()
	s.asyncTasks.Add(1)
	go s.introducerLoop()
	mk := func(ids ...byte) *verifCUSeg { return &verifCUSeg{verifSeg{n: len(ids), idOf: ids, refs: 1}} }
	rt.Assert(s.prepareSegment(mk('a'), []string{"a"}, nil, nil) == nil, "batch 1")
	rt.Assert(s.prepareSegment(mk('b'), []string{"b"}, nil, nil) == nil, "batch 2")
	when := rt.Choice("batch_arrives_after_file", 3) // 0: no batch during the round
	seen := 0
	verifCrashHook = func(what string) {
		seen++
		if seen != when {
			return
		}
		// a batch over symbolic ids: upsert and/or delete a, b
		var ids []string
		var up []byte
		for x := 0; x < 2; x++ {
			switch rt.Choice("op", 3) {
			case 1:
				ids = append(ids, string([]byte{'a' + byte(x)}))
				up = append(up, 'a'+byte(x))
			case 2:
				ids = append(ids, string([]byte{'a' + byte(x)}))
			}
		}
		var seg segment.Segment
		if len(up) > 0 {
			seg = mk(up...)
		}
		rt.Assert(s.prepareSegment(seg, ids, nil, nil) == nil, "batch during the persist round")
	}
	defer func() { verifCrashHook = nil }()
	snap := s.currentSnapshot()
	rt.Assert(len(snap.segment) == 2, "two in-memory segments to persist")
	rt.Assert(s.persistSnapshotDirect(snap) == nil, "persist round succeeds")
	_ = snap.DecRef()
	verifCrashHook = nil
	cur := s.currentSnapshot()
	inRoot := 0
	for _, ps := range verifOpenedSegs {
		held := false
		for _, ss := range cur.segment {
			if ss.segment == segment.Segment(ps) {
				held = true
			}
		}
		if held {
			inRoot++
			rt.Assert(ps.closed == 0, "a segment file held by the current root stays open")
		} else {
			rt.Assert(ps.closed >= 1, "a segment file that was opened but is not part of the root has been closed again")
		}
	}
	rt.Assert(len(verifOpenedSegs) == 2, "both new segment files were opened")
	_ = cur.DecRef()
	close(s.closeCh)
	s.asyncTasks.Wait()
	_ = s.rootBolt.Close()
	rt.Cover(rt.And(when >= 1, inRoot <= 1), "a-persisted-segment-was-obsoleted-meanwhile")
}

// VerifH_C12_MergeBracket: a file merge (the real planMergeAtSnapshot with its mark / merge /
// introduce / unmark bracket, real introducerLoop, stub plugin) over two persisted segments of the
// root whose files may or may not be recorded in the metadata store yet (a file not yet recorded is
// protected only by its "ineligible for removal" mark), ending in success, in a cancelled merge or in
// a failing merge; then a purge round (the real removeOldData). Afterwards every segment file the
// current root uses still exists, and when the merge did not happen no merge output is left behind.
func VerifH_C12_MergeBracket() {
	dir := verifTempDir()
	defer os.RemoveAll(dir)
	s := verifStartDisk(dir, false)
	s.asyncTasks.Add(1)
	go s.introducerLoop()
	defer func() { verifMergeHook, verifMergeAwaitCancel = nil, false }()
	// two persisted segments in the root; the first snapshot (segment 1) is recorded in bolt
	snap1 := verifPersistedSnapshot(s, 1, 1, []byte{'a'}, map[string][]byte{})
	rt.Assert(s.persistSnapshotDirect(snap1) == nil, "record the first snapshot")
	recordedSecond := rt.Choice("second_file_recorded", 2) == 1
	fn2 := filepath.Join(s.path, zapFileName(2))
	rt.Assert(verifWriteSegFile(fn2, []byte{'b'}) == nil, "write second segment file")
	seg2 := &verifPSeg{verifSeg{n: 1, idOf: []byte{'b'}, refs: 1, path: fn2}}
	root := &IndexSnapshot{parent: s, refs: 1, epoch: 2, internal: map[string][]byte{}, creator: "verif",
		segment: []*SegmentSnapshot{snap1.segment[0], {id: 2, segment: seg2, stats: newFieldStats(), cachedDocs: &cachedDocs{cache: nil}, cachedMeta: newCachedMeta()}},
		offsets: []uint64{0, 1}}
	s.root = root
	s.nextSnapshotEpoch = 3
	s.nextSegmentID = 2
	if recordedSecond {
		rt.Assert(s.persistSnapshotDirect(root) == nil, "record the second snapshot")
		s.eligibleForRemoval = append(s.eligibleForRemoval, 1)
	} else {
		// e.g. the output of an earlier merge that the persister has not recorded yet
		s.markIneligibleForRemoval(zapFileName(2))
	}
	outcome := rt.Choice("merge_outcome", 3) // 0 succeeds, 1 cancelled while writing, 2 nothing to do (already cancelled)
	ctx, cancel := context.WithCancel(context.Background())
	switch outcome {
	case 1:
		verifMergeHook = func() {
			verifMergeHook = nil
			cancel()
			verifMergeAwaitCancel = true
		}
	case 2:
		cancel()
		verifMergeAwaitCancel = true // the merge is governed by the cancelled context: it will be told
	}
	cur := s.currentSnapshot()
	opts := mergeplan.SingleSegmentMergePlanOptions
	err := s.planMergeAtSnapshot(&mergerCtrl{ctx: ctx, options: &opts}, cur)
	_ = cur.DecRef()
	cancel()
	if outcome == 0 {
		rt.Assert(err == nil, "an undisturbed merge succeeds")
	}
	// a purge round
	s.removeOldData()
	now := s.currentSnapshot()
	for _, ss := range now.segment {
		if ps, ok := ss.segment.(segment.PersistedSegment); ok {
			rt.Assert(verifFileExists(ps.Path()), "every segment file the current root uses exists after a merge attempt and a purge round")
		}
	}
	if err != nil {
		rt.Assert(len(now.segment) == 2, "a failed merge leaves the root as it was")
		rt.Assert(!verifFileExists(filepath.Join(s.path, zapFileName(3))) || !s.ineligibleForRemoval[zapFileName(3)], "no protected merge output is left behind by a failed merge")
	}
	_ = now.DecRef()
	close(s.closeCh)
	s.asyncTasks.Wait()
	_ = s.rootBolt.Close()
	rt.Cover(rt.And(err != nil, !recordedSecond), "failed-merge-over-an-unrecorded-file")
	rt.Cover(rt.And(err == nil, outcome == 0), "merge-succeeded")
}
