//go:build verif

package scorch

import (
	"os"
	"path/filepath"

	rt "github.com/blevesearch/bleve/v2/internal/verifrt"
)

func verifFileExists(path string) bool {
	_, err := os.ReadFile(path)
	return err == nil
}

// VerifH_C12_Purge: one purge round (the real removeOldData) from an arbitrary bookkeeping state:
// up to three snapshots written by the real persistSnapshotDirect, each naming its own segment file
// and possibly the previous snapshot's file too, a stray segment file nobody names, symbolic sets of
// epochs eligible for removal, of files marked ineligible for removal and of files scheduled for an
// online copy, symbolic number of snapshots to keep. Asserted afterwards:
//   - the newest snapshot and the configured number of newest snapshots are still recorded;
//   - only snapshots that were eligible for removal are gone;
//   - every file named by a snapshot that is still recorded exists (reopening cannot fail);
//   - a file marked ineligible or scheduled for copy exists;
//   - a segment file that nothing protects is gone (no accumulation).
func VerifH_C12_Purge() {
	dir := verifTempDir()
	defer os.RemoveAll(dir)
	s, err := verifDiskScorch(dir)
	rt.Assert(err == nil, "open bolt")
	k := rt.Choice("snapshots", rt.Param("max_snapshots", 3)) + 1
	s.numSnapshotsToKeep = rt.Choice("keep", 3) + 1
	names := make([][]string, k) // file names recorded by snapshot i
	for i := 0; i < k; i++ {
		epoch := uint64(10 + i)
		segID := uint64(i + 1)
		snap := verifPersistedSnapshot(s, epoch, segID, []byte{'a'}, map[string][]byte{})
		names[i] = []string{zapFileName(segID)}
		if i > 0 && rt.Choice("shares_previous_file", 2) == 1 {
			prev := uint64(i)
			fn := filepath.Join(dir, zapFileName(prev))
			seg := &verifPSeg{verifSeg{n: 1, idOf: []byte{'a'}, refs: 1, path: fn}}
			snap.segment = append(snap.segment, &SegmentSnapshot{id: prev, segment: seg, stats: newFieldStats(), cachedDocs: &cachedDocs{cache: nil}, cachedMeta: newCachedMeta()})
			snap.offsets = append(snap.offsets, 1)
			names[i] = append(names[i], zapFileName(prev))
		}
		rt.Assert(s.persistSnapshotDirect(snap) == nil, "persistSnapshotDirect")
		if rt.Choice("eligible", 2) == 1 {
			s.eligibleForRemoval = append(s.eligibleForRemoval, epoch)
		}
	}
	eligible := append([]uint64{}, s.eligibleForRemoval...)
	// a stray file, e.g. left by a merge that was never introduced
	stray := zapFileName(99)
	rt.Assert(verifWriteSegFile(filepath.Join(dir, stray), []byte{'z'}) == nil, "write stray")
	all := []string{stray}
	for i := 0; i < k; i++ {
		all = append(all, zapFileName(uint64(i+1)))
	}
	protectedBy := map[string]bool{}
	for _, f := range all {
		switch rt.Choice("guard", 3) {
		case 1:
			s.ineligibleForRemoval[f] = true
			protectedBy[f] = true
		case 2:
			s.copyScheduled[f] = 1
			protectedBy[f] = true
		}
	}

	s.removeOldData()

	meta, err := s.rootBoltSnapshotMetaData()
	rt.Assert(err == nil, "read snapshot metadata")
	remaining := map[uint64]bool{}
	for _, m := range meta {
		remaining[m.epoch] = true
	}
	rt.Assert(remaining[uint64(10+k-1)], "the newest snapshot is never removed")
	keep := s.numSnapshotsToKeep
	for i := k - 1; i >= 0 && i > k-1-keep; i-- {
		rt.Assert(remaining[uint64(10+i)], "the configured number of newest snapshots is kept")
	}
	for i := 0; i < k; i++ {
		e := uint64(10 + i)
		if !remaining[e] {
			was := false
			for _, x := range eligible {
				if x == e {
					was = true
				}
			}
			rt.Assert(was, "only snapshots that were eligible for removal are removed")
		}
	}
	named := map[string]bool{}
	for i := 0; i < k; i++ {
		if remaining[uint64(10+i)] {
			for _, f := range names[i] {
				named[f] = true
				rt.Assert(verifFileExists(filepath.Join(dir, f)), "a file named by a recorded snapshot exists")
			}
		}
	}
	for _, f := range all {
		if protectedBy[f] {
			rt.Assert(verifFileExists(filepath.Join(dir, f)), "a file marked ineligible for removal or scheduled for copy exists")
		}
		if !protectedBy[f] && !named[f] {
			rt.Assert(!verifFileExists(filepath.Join(dir, f)), "a segment file that nothing protects is removed")
		}
	}
	_ = s.rootBolt.Close()
	rt.Cover(rt.And(k == 3, len(meta) == 1), "two-snapshots-purged")
	rt.Cover(rt.And(k >= 2, len(meta) == k, len(eligible) >= 1), "eligible-but-protected")
}
