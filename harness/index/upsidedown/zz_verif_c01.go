//go:build verif

package upsidedown

import (
	rt "github.com/blevesearch/bleve/v2/internal/verifrt"
	"google.golang.org/protobuf/proto"
)

// VerifH_C01_UpsideDownMerge: the row arithmetic of an upsidedown update. The previous version of a
// document (absent, or any subset of a vocabulary of two terms in field 0, one term in field 1 and
// stored values of fields 0 and 1 as its back index row records them) is replaced by a new version
// (any subset of the same vocabulary). Applying the rows mergeOldAndNew returns - adds, updates,
// deletes - to the set of keys of the old version must give exactly the keys of the new version:
// nothing of the old version survives, nothing of the new one is lost, no key is both written and
// deleted; adds are exactly the keys that did not exist (the dictionary counts depend on it).
func VerifH_C01_UpsideDownMerge() {
	doc := []byte("d")
	type item struct {
		stored bool
		term   string
		field  uint16
	}
	vocab := []item{{false, "x", 0}, {false, "y", 0}, {false, "x", 1}, {true, "", 0}, {true, "", 1}}
	keyOf := func(it item) string {
		if it.stored {
			return string(NewStoredRow(doc, it.field, nil, 't', nil).Key())
		}
		return string(NewTermFrequencyRow([]byte(it.term), it.field, doc, 0, 0).Key())
	}
	hadDoc := rt.Choice("old_version_exists", 2) == 1
	old := make([]bool, len(vocab))
	var back *BackIndexRow
	if hadDoc {
		termsByField := map[uint16][]string{}
		var stored []*BackIndexStoreEntry
		for i, it := range vocab {
			old[i] = rt.Choice("old_has", 2) == 1
			if !old[i] {
				continue
			}
			if it.stored {
				stored = append(stored, &BackIndexStoreEntry{Field: proto.Uint32(uint32(it.field))})
			} else {
				termsByField[it.field] = append(termsByField[it.field], it.term)
			}
		}
		var entries []*BackIndexTermsEntry
		for f := uint16(0); f < 2; f++ {
			if ts := termsByField[f]; len(ts) > 0 {
				entries = append(entries, &BackIndexTermsEntry{Field: proto.Uint32(uint32(f)), Terms: ts})
			}
		}
		back = NewBackIndexRow(doc, entries, stored)
	}
	cur := make([]bool, len(vocab))
	var rows []IndexRow
	for i, it := range vocab {
		cur[i] = rt.Choice("new_has", 2) == 1
		if !cur[i] {
			continue
		}
		if it.stored {
			rows = append(rows, NewStoredRow(doc, it.field, nil, 't', []byte("v")))
		} else {
			rows = append(rows, NewTermFrequencyRow([]byte(it.term), it.field, doc, 1, 1))
		}
	}
	rows = append(rows, NewBackIndexRow(doc, nil, nil))
	backKey := string(NewBackIndexRow(doc, nil, nil).Key())

	udc := &UpsideDownCouch{}
	adds, updates, deletes := udc.mergeOldAndNew(back, rows)

	state := map[string]bool{}
	for i, it := range vocab {
		if old[i] {
			state[keyOf(it)] = true
		}
	}
	if hadDoc {
		state[backKey] = true
	}
	written := map[string]bool{}
	for _, r := range adds {
		k := string(r.Key())
		rt.Assert(!state[k], "a row reported as added did not exist before (dictionary counts are incremented for it)")
		rt.Assert(!written[k], "no key is written twice")
		written[k] = true
	}
	for _, r := range updates {
		k := string(r.Key())
		rt.Assert(state[k] || k == backKey, "a row reported as updated existed before")
		rt.Assert(!written[k], "no key is written twice")
		written[k] = true
	}
	for _, r := range deletes {
		k := string(r.Key())
		rt.Assert(state[k], "a deleted row existed before")
		rt.Assert(!written[k], "no key is both written and deleted")
		delete(state, k)
	}
	for k := range written {
		state[k] = true
	}
	for i, it := range vocab {
		rt.Assert(state[keyOf(it)] == cur[i], "after the update the index holds exactly the rows of the new version")
	}
	rt.Assert(state[backKey], "the back index row is written")
	rt.Cover(hadDoc && !old[0] && !old[1] && !old[2] && old[3] && cur[3], "old-version-without-terms-with-stored-field")
	rt.Cover(hadDoc && old[0] && !cur[0] && cur[1], "term-replaced")
}

// VerifH_C01_UpsideDownDelete: the row arithmetic of an upsidedown delete (deleteSingle): for every
// version a document can have (any subset of the vocabulary of VerifH_C01_UpsideDownMerge, as its
// back index row records it) the rows to delete are exactly the keys of that version plus the back
// index row, each once - nothing of the deleted document stays behind for a later re-creation to
// pick up.
func VerifH_C01_UpsideDownDelete() {
	doc := []byte("d")
	type item struct {
		stored bool
		term   string
		field  uint16
	}
	vocab := []item{{false, "x", 0}, {false, "y", 0}, {false, "x", 1}, {true, "", 0}, {true, "", 1}, {true, "", 2}}
	keyOf := func(it item) string {
		if it.stored {
			return string(NewStoredRow(doc, it.field, nil, 't', nil).Key())
		}
		return string(NewTermFrequencyRow([]byte(it.term), it.field, doc, 0, 0).Key())
	}
	had := make([]bool, len(vocab))
	termsByField := map[uint16][]string{}
	var stored []*BackIndexStoreEntry
	for i, it := range vocab {
		had[i] = rt.Choice("has", 2) == 1
		if !had[i] {
			continue
		}
		if it.stored {
			stored = append(stored, &BackIndexStoreEntry{Field: proto.Uint32(uint32(it.field))})
		} else {
			termsByField[it.field] = append(termsByField[it.field], it.term)
		}
	}
	var entries []*BackIndexTermsEntry
	for f := uint16(0); f < 2; f++ {
		if ts := termsByField[f]; len(ts) > 0 {
			entries = append(entries, &BackIndexTermsEntry{Field: proto.Uint32(uint32(f)), Terms: ts})
		}
	}
	back := NewBackIndexRow(doc, entries, stored)
	udc := &UpsideDownCouch{}
	rows := udc.deleteSingle("d", back, nil)
	seen := map[string]int{}
	for _, r := range rows {
		seen[string(r.Key())]++
	}
	n := 0
	for i, it := range vocab {
		want := 0
		if had[i] {
			want = 1
			n++
		}
		rt.Assert(seen[keyOf(it)] == want, "exactly the rows of the deleted version are deleted, each once")
	}
	rt.Assert(seen[string(back.Key())] == 1, "the back index row is deleted")
	rt.Assert(len(rows) == n+1, "nothing else is deleted")
	rt.Cover(had[3] && had[4] && had[5], "three-stored-fields")
}
