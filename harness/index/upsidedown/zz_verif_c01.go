//go:build verif

package upsidedown

import (
	"errors"

	rt "github.com/blevesearch/bleve/v2/internal/verifrt"
	store "github.com/blevesearch/upsidedown_store_api"
	"google.golang.org/protobuf/proto"
)

// VerifH_C01_UpsideDownMerge: the row arithmetic of an upsidedown update. The previous version of a
// document (absent, or any subset of a vocabulary of two terms in field 0, one term in field 1 and
// stored values of fields 0 and 1 as its back index row records them) is replaced by a new version
// (any subset of the same vocabulary). Applying the rows mergeOldAndNew returns - adds, updates,
// deletes - to the set of keys of the old version must give exactly the keys of the new version:
// nothing of the old version survives, nothing of the new one is lost, no key is both written and
// deleted; adds are exactly the keys that did not exist (the dictionary counts depend on it).
func VerifH_C01_UpsideDownMerge() {
	doc := []byte("d")
	type item struct {
		stored bool
		term   string
		field  uint16
	}
	vocab := []item{{false, "x", 0}, {false, "y", 0}, {false, "x", 1}, {true, "", 0}, {true, "", 1}}
	keyOf := func(it item) string {
		if it.stored {
			return string(NewStoredRow(doc, it.field, nil, 't', nil).Key())
		}
		return string(NewTermFrequencyRow([]byte(it.term), it.field, doc, 0, 0).Key())
	}
	hadDoc := rt.Choice("old_version_exists", 2) == 1
	old := make([]bool, len(vocab))
	var back *BackIndexRow
	if hadDoc {
		termsByField := map[uint16][]string{}
		var stored []*BackIndexStoreEntry
		for i, it := range vocab {
			old[i] = rt.Choice("old_has", 2) == 1
			if !old[i] {
				continue
			}
			if it.stored {
				stored = append(stored, &BackIndexStoreEntry{Field: proto.Uint32(uint32(it.field))})
			} else {
				termsByField[it.field] = append(termsByField[it.field], it.term)
			}
		}
		var entries []*BackIndexTermsEntry
		for f := uint16(0); f < 2; f++ {
			if ts := termsByField[f]; len(ts) > 0 {
				entries = append(entries, &BackIndexTermsEntry{Field: proto.Uint32(uint32(f)), Terms: ts})
			}
		}
		back = NewBackIndexRow(doc, entries, stored)
	}
	cur := make([]bool, len(vocab))
	var rows []IndexRow
	for i, it := range vocab {
		cur[i] = rt.Choice("new_has", 2) == 1
		if !cur[i] {
			continue
		}
		if it.stored {
			rows = append(rows, NewStoredRow(doc, it.field, nil, 't', []byte("v")))
		} else {
			rows = append(rows, NewTermFrequencyRow([]byte(it.term), it.field, doc, 1, 1))
		}
	}
	rows = append(rows, NewBackIndexRow(doc, nil, nil))
	backKey := string(NewBackIndexRow(doc, nil, nil).Key())

	udc := &UpsideDownCouch{}
	adds, updates, deletes := udc.mergeOldAndNew(back, rows)

	state := map[string]bool{}
	for i, it := range vocab {
		if old[i] {
			state[keyOf(it)] = true
		}
	}
	if hadDoc {
		state[backKey] = true
	}
	written := map[string]bool{}
	for _, r := range adds {
		k := string(r.Key())
		rt.Assert(!state[k], "a row reported as added did not exist before (dictionary counts are incremented for it)")
		rt.Assert(!written[k], "no key is written twice")
		written[k] = true
	}
	for _, r := range updates {
		k := string(r.Key())
		rt.Assert(state[k] || k == backKey, "a row reported as updated existed before")
		rt.Assert(!written[k], "no key is written twice")
		written[k] = true
	}
	for _, r := range deletes {
		k := string(r.Key())
		rt.Assert(state[k], "a deleted row existed before")
		rt.Assert(!written[k], "no key is both written and deleted")
		delete(state, k)
	}
	for k := range written {
		state[k] = true
	}
	for i, it := range vocab {
		rt.Assert(state[keyOf(it)] == cur[i], "after the update the index holds exactly the rows of the new version")
	}
	rt.Assert(state[backKey], "the back index row is written")
	rt.Cover(hadDoc && !old[0] && !old[1] && !old[2] && old[3] && cur[3], "old-version-without-terms-with-stored-field")
	rt.Cover(hadDoc && old[0] && !cur[0] && cur[1], "term-replaced")
}

// VerifH_C01_UpsideDownDelete: the row arithmetic of an upsidedown delete (deleteSingle): for every
// version a document can have (any subset of the vocabulary of VerifH_C01_UpsideDownMerge, as its
// back index row records it) the rows to delete are exactly the keys of that version plus the back
// index row, each once - nothing of the deleted document stays behind for a later re-creation to
// pick up.
func VerifH_C01_UpsideDownDelete() {
	doc := []byte("d")
	type item struct {
		stored bool
		term   string
		field  uint16
	}
	vocab := []item{{false, "x", 0}, {false, "y", 0}, {false, "x", 1}, {true, "", 0}, {true, "", 1}, {true, "", 2}}
	keyOf := func(it item) string {
		if it.stored {
			return string(NewStoredRow(doc, it.field, nil, 't', nil).Key())
		}
		return string(NewTermFrequencyRow([]byte(it.term), it.field, doc, 0, 0).Key())
	}
	had := make([]bool, len(vocab))
	termsByField := map[uint16][]string{}
	var stored []*BackIndexStoreEntry
	for i, it := range vocab {
		had[i] = rt.Choice("has", 2) == 1
		if !had[i] {
			continue
		}
		if it.stored {
			stored = append(stored, &BackIndexStoreEntry{Field: proto.Uint32(uint32(it.field))})
		} else {
			termsByField[it.field] = append(termsByField[it.field], it.term)
		}
	}
	var entries []*BackIndexTermsEntry
	for f := uint16(0); f < 2; f++ {
		if ts := termsByField[f]; len(ts) > 0 {
			entries = append(entries, &BackIndexTermsEntry{Field: proto.Uint32(uint32(f)), Terms: ts})
		}
	}
	back := NewBackIndexRow(doc, entries, stored)
	udc := &UpsideDownCouch{}
	rows := udc.deleteSingle("d", back, nil)
	seen := map[string]int{}
	for _, r := range rows {
		seen[string(r.Key())]++
	}
	n := 0
	for i, it := range vocab {
		want := 0
		if had[i] {
			want = 1
			n++
		}
		rt.Assert(seen[keyOf(it)] == want, "exactly the rows of the deleted version are deleted, each once")
	}
	rt.Assert(seen[string(back.Key())] == 1, "the back index row is deleted")
	rt.Assert(len(rows) == n+1, "nothing else is deleted")
	rt.Cover(had[3] && had[4] && had[5], "three-stored-fields")
}

// ---- C11: store readers and writers are released ----

type verifKV struct {
	readersOpen, writersOpen int
	readers, writers         int
}

type verifKVReader struct {
	store.KVReader
	s      *verifKV
	getErr error
	closed int
}

func (r *verifKVReader) Get(key []byte) ([]byte, error) { return nil, r.getErr }
func (r *verifKVReader) Close() error {
	r.closed++
	r.s.readersOpen--
	return nil
}

type verifKVWriter struct {
	store.KVWriter
	s       *verifKV
	execErr error
}

type verifKVBatch struct{ store.KVBatch }

func (b *verifKVBatch) Set(key, val []byte)   {}
func (b *verifKVBatch) Delete(key []byte)     {}
func (b *verifKVBatch) Merge(key, val []byte) {}
func (b *verifKVBatch) Reset()                {}
func (b *verifKVBatch) Close() error          { return nil }

func (w *verifKVWriter) NewBatch() store.KVBatch                { return &verifKVBatch{} }
func (w *verifKVWriter) ExecuteBatch(b store.KVBatch) error     { return w.execErr }
func (w *verifKVWriter) Close() error                           { w.s.writersOpen--; return nil }
func (s *verifKV) Close() error                                 { return nil }
func (s *verifKV) Reader() (store.KVReader, error) {
	if rt.Choice("reader_fails", 2) == 1 {
		return nil, errVerif
	}
	s.readers++
	s.readersOpen++
	r := &verifKVReader{s: s}
	if rt.Choice("get_fails", 2) == 1 {
		r.getErr = errVerif
	}
	return r, nil
}
func (s *verifKV) Writer() (store.KVWriter, error) {
	if rt.Choice("writer_fails", 2) == 1 {
		return nil, errVerif
	}
	s.writers++
	s.writersOpen++
	w := &verifKVWriter{s: s}
	if rt.Choice("execute_fails", 2) == 1 {
		w.execErr = errVerif
	}
	return w, nil
}

var errVerif = errors.New("verif: store failure")

// VerifH_C11_UpsideDownReleases: upsidedown's Delete (of an id the index does not hold, or whose
// look-up fails), SetInternal, DeleteInternal and GetInternal over a stub KV store whose every call
// may fail: when the call returns, every store reader and writer it opened has been closed (a reader
// left open pins the store - with the default boltdb store a later Close blocks for ever), and the
// writer lock is free.
func VerifH_C11_UpsideDownReleases() {
	kv := &verifKV{}
	udc := &UpsideDownCouch{store: kv, stats: &indexStat{}}
	switch rt.Choice("op", 4) {
	case 0:
		_ = udc.Delete("nosuchdoc")
	case 1:
		_ = udc.SetInternal([]byte("k"), []byte("v"))
	case 2:
		_ = udc.DeleteInternal([]byte("k"))
	case 3:
		r, err := udc.Reader()
		if err == nil {
			_, _ = r.GetInternal([]byte("k"))
			_ = r.Close()
		}
	}
	rt.Assert(kv.readersOpen == 0, "every store reader opened by the call has been closed when it returns")
	rt.Assert(kv.writersOpen == 0, "every store writer opened by the call has been closed when it returns")
	rt.Assert(rt.MutexFree(&udc.writeMutex), "the writer lock is free when the call has returned")
	rt.Cover(kv.readers == 1 && kv.readersOpen == 0, "a-reader-was-opened-and-closed")
}
