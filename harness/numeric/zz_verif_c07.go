//go:build verif

package numeric

import (
	"math"

	rt "github.com/blevesearch/bleve/v2/internal/verifrt"
)

// VerifH_C07_FloatOrder: for all float64 a, b other than NaN and -0:
// a < b => F(a) < F(b), a == b => F(a) == F(b), and Int64ToFloat64(F(a)) is a bit for bit.
func VerifH_C07_FloatOrder() {
	a, b := rt.F64("a"), rt.F64("b")
	ab, bb := math.Float64bits(a), math.Float64bits(b)
	rt.Assume(rt.And(a == a, b == b, ab != 1<<63, bb != 1<<63))
	ia, ib := Float64ToInt64(a), Float64ToInt64(b)
	rt.Assert(rt.Implies(a < b, ia < ib), "order preserved")
	rt.Assert(rt.Implies(ia < ib, a < b), "order reflected")
	rt.Assert(rt.Implies(a == b, ia == ib), "equal values encode equally")
	rt.Assert(math.Float64bits(Int64ToFloat64(ia)) == ab, "decode(encode(a)) == a bit for bit")
	rt.Cover(rt.And(a < 0, b > 0), "negative-positive")
	rt.Cover(rt.And(a < b, b < 0), "both-negative")
	rt.Cover(rt.And(a < b, a > 0), "both-positive")
}

// VerifH_C07_IntFloatInt: the date path stores int64 nanoseconds through Int64ToFloat64 and back.
func VerifH_C07_IntFloatInt() {
	i := rt.I64("i")
	f := Int64ToFloat64(i)
	rt.Assert(Float64ToInt64(f) == i, "Float64ToInt64(Int64ToFloat64(i)) == i")
	rt.Cover(i < 0, "negative")
	rt.Cover(i > 0, "positive")
}

// VerifH_C07_PrefixCoded: for every indexed shift, the byte order of prefix coded terms is the
// numeric order of the values shifted right, decoding clears exactly the low bits, and the
// term passes the validity predicate with its shift.
func VerifH_C07_PrefixCoded() {
	shift := uint(rt.Choice("shift", 16)) * 4
	x, y := rt.I64("x"), rt.I64("y")
	px, err := NewPrefixCodedInt64(x, shift)
	rt.Assert(err == nil, "no error for shift <= 60")
	py := MustNewPrefixCodedInt64(y, shift)
	sx := (uint64(x) ^ 0x8000000000000000) >> shift
	sy := (uint64(y) ^ 0x8000000000000000) >> shift
	less := rt.LessBytes(px, py)
	rt.Assert(less == (sx < sy), "term order == order of shifted values")
	rt.Assert(rt.EqBytes(px, py) == (sx == sy), "term equality == equality of shifted values")
	// signed view: x>>shift (arithmetic) orders the same way
	rt.Assert((sx < sy) == ((x >> shift) < (y >> shift)), "sortable bits order == signed order")
	dx, derr := px.Int64()
	rt.Assert(derr == nil, "decode has no error")
	rt.Assert(dx == (x>>shift)<<shift, "decode clears the low bits only")
	ok, s := ValidPrefixCodedTermBytes(px)
	rt.Assert(ok, "term is valid")
	rt.Assert(uint(s) == shift, "valid-term predicate reports the shift")
	gs, gerr := px.Shift()
	rt.Assert(rt.And(gerr == nil, gs == shift), "Shift() reports the shift")
	for i := 1; i < len(px); i++ {
		rt.Assert(px[i] < 0x80, "term bytes are 7-bit")
	}
	rt.Cover(rt.And(less, x < 0, y >= 0), "sign-crossing")
	rt.Cover(rt.And(sx == sy, x != y), "same-term-different-values")
}

// VerifH_C07_PrefixCodedShifts: terms of different shifts never compare equal, and an invalid
// shift is rejected.
func VerifH_C07_PrefixCodedShifts() {
	s1 := uint(rt.Choice("s1", 16)) * 4
	s2 := uint(rt.Choice("s2", 16)) * 4
	x, y := rt.I64("x"), rt.I64("y")
	px := MustNewPrefixCodedInt64(x, s1)
	py := MustNewPrefixCodedInt64(y, s2)
	if s1 != s2 {
		rt.Assert(px[0] != py[0], "different shifts differ in the first byte")
		rt.Assert(!rt.EqBytes(px, py), "different shifts never equal")
	}
	_, err := NewPrefixCodedInt64(x, 64+s1)
	rt.Assert(err != nil, "shift > 63 rejected")
}
