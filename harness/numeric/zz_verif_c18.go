//go:build verif

package numeric

import (
	rt "github.com/blevesearch/bleve/v2/internal/verifrt"
)

// VerifH_C18_Interleave: the morton interleaving of two 32-bit values is lossless and keeps the
// two axes independent: Deinterleave(Interleave(x,y)) == x, Deinterleave(Interleave(x,y)>>1) == y.
func VerifH_C18_Interleave() {
	x, y := uint64(rt.U32("x")), uint64(rt.U32("y"))
	h := Interleave(x, y)
	rt.Assert(Deinterleave(h) == x, "first axis recovered")
	rt.Assert(Deinterleave(h>>1) == y, "second axis recovered")
	// cell order: with y fixed, a larger x gives a larger hash; same for y
	x2 := uint64(rt.U32("x2"))
	rt.Assert((Interleave(x2, y) < h) == (x2 < x), "hash is monotone in the first axis")
	rt.Assert((Interleave(x, x2) < h) == (x2 < y), "hash is monotone in the second axis")
	// a common prefix of the hash is a common prefix of both coordinates (cell nesting)
	s := uint(rt.Choice("shift", 32)) * 2
	h2 := Interleave(x2, uint64(rt.U32("y2")))
	if h>>s == h2>>s {
		rt.Assert(Deinterleave(h)>>(s/2) == Deinterleave(h2)>>(s/2), "same cell => same first-axis cell")
		rt.Assert(Deinterleave(h>>1)>>(s/2) == Deinterleave(h2>>1)>>(s/2), "same cell => same second-axis cell")
		rt.Cover(h != h2, "same-cell-different-points")
	}
}
