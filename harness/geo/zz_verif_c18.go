//go:build verif

package geo

import (
	rt "github.com/blevesearch/bleve/v2/internal/verifrt"
)

func verifInBox(lon, lat, minLon, minLat, maxLon, maxLat float64) bool {
	return rt.And(lon >= minLon, lon <= maxLon, lat >= minLat, lat <= maxLat)
}

// VerifH_C18_RectPredicates: the rectangle predicates the cell descent relies on, for arbitrary
// (non-NaN) coordinates of well-formed rectangles and an arbitrary point: a cell reported within the
// query box lies inside it (every point of the cell is a point of the box, so its term can be taken
// without a per-document check); a cell and a box that share a point are reported as intersecting (so
// the descent never prunes a cell that contains a matching point).
func VerifH_C18_RectPredicates() {
	f := func(l string) float64 {
		x := rt.F64(l)
		rt.Assume(x == x)
		return x
	}
	aMinX, aMinY, aMaxX, aMaxY := f("aminx"), f("aminy"), f("amaxx"), f("amaxy")
	bMinX, bMinY, bMaxX, bMaxY := f("bminx"), f("bminy"), f("bmaxx"), f("bmaxy")
	px, py := f("px"), f("py")
	rt.Assume(rt.And(aMinX <= aMaxX, aMinY <= aMaxY, bMinX <= bMaxX, bMinY <= bMaxY))
	inA := verifInBox(px, py, aMinX, aMinY, aMaxX, aMaxY)
	inB := verifInBox(px, py, bMinX, bMinY, bMaxX, bMaxY)
	within := RectWithin(aMinX, aMinY, aMaxX, aMaxY, bMinX, bMinY, bMaxX, bMaxY)
	inter := RectIntersects(aMinX, aMinY, aMaxX, aMaxY, bMinX, bMinY, bMaxX, bMaxY)
	rt.Assert(rt.Implies(rt.And(within, inA), inB), "a rectangle within another contains none of its points outside it")
	rt.Assert(rt.Implies(rt.And(inA, inB), inter), "rectangles sharing a point intersect")
	rt.Assert(rt.Implies(within, inter), "within implies intersects")
	// corners decide: if all four corners of a are in b then a is within b
	corners := rt.And(verifInBox(aMinX, aMinY, bMinX, bMinY, bMaxX, bMaxY), verifInBox(aMaxX, aMaxY, bMinX, bMinY, bMaxX, bMaxY))
	rt.Assert(corners == within, "within is exactly: both extreme corners inside")
	rt.Cover(rt.And(inter, !within), "overlapping-not-within")
}

// VerifH_C18_BoxContains: the per-document check of points near the boundary accepts every point
// inside the box and rejects every point farther than the stated tolerance outside it.
func VerifH_C18_BoxContains() {
	f := func(l string) float64 {
		x := rt.F64(l)
		rt.Assume(rt.And(x >= -400, x <= 400))
		return x
	}
	// quick: one symbolic axis at a time (the other axis concrete and inside); thorough: both
	var lon, lat, minLon, minLat, maxLon, maxLat float64
	if rt.Param("both_axes", 0) == 1 {
		lon, lat = f("lon"), f("lat")
		minLon, minLat, maxLon, maxLat = f("minlon"), f("minlat"), f("maxlon"), f("maxlat")
	} else if rt.Choice("axis", 2) == 0 {
		lon, minLon, maxLon = f("lon"), f("minlon"), f("maxlon")
	} else {
		lat, minLat, maxLat = f("lat"), f("minlat"), f("maxlat")
	}
	got := BoundingBoxContains(lon, lat, minLon, minLat, maxLon, maxLat)
	inside := verifInBox(lon, lat, minLon, minLat, maxLon, maxLat)
	rt.Assert(rt.Implies(inside, got), "a point inside the box is accepted")
	if rt.Param("far", 1) == 1 {
		tol := 2e-6
		far := rt.Or(lon < minLon-tol, lon > maxLon+tol, lat < minLat-tol, lat > maxLat+tol)
		rt.Assert(rt.Implies(far, !got), "a point clearly outside the box is rejected")
	}
	rt.Cover(rt.And(got, !inside), "accepted-within-tolerance")
}
