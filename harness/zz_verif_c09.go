//go:build verif

package bleve

import (
	"context"
	"sort"
	"time"

	rt "github.com/blevesearch/bleve/v2/internal/verifrt"
	"github.com/blevesearch/bleve/v2/search"
)

// verifShard is a stub index holding some of the corpus's documents. It answers a search request
// correctly by construction: all its documents match, ordered by the request's sort (one string field
// "f" ascending or descending, then _id), restricted to those after the search-after key, truncated
// to the requested size; a terms facet on "g" counts its own documents.
type verifIndexIface = Index

type verifShard struct {
	verifIndexIface
	gate chan struct{} // closed when it is this shard's turn to answer
	next chan struct{} // the following shard's gate
	name string
	docs []int // indexes into the corpus
	reqs []*SearchRequest
}

var verifCorpusKeys = []string{"a", "b", "c", "d", "e"}
var verifCorpusIDs = []string{"d0", "d1", "d2", "d3", "d4"}
var verifCorpusFacet = []string{"x", "y", "x", "", "y"} // value of field g ("" = missing)

func (s *verifShard) Name() string { return s.name }

func (s *verifShard) SearchInContext(ctx context.Context, req *SearchRequest) (*SearchResult, error) {
	// answers arrive in the order the harness chose: wait for the turn, and give the previous shard's
	// result time to be delivered (natively goroutines are scheduled arbitrarily)
	if s.gate != nil {
		<-s.gate
		time.Sleep(3 * time.Millisecond)
	}
	defer func() {
		if s.next != nil {
			close(s.next)
		}
	}()
	s.reqs = append(s.reqs, req)
	desc := false
	if len(req.Sort) > 0 {
		desc = req.Sort[0].Descending()
	}
	docs := append([]int{}, s.docs...)
	sort.Slice(docs, func(i, j int) bool {
		if desc {
			return docs[i] > docs[j]
		}
		return docs[i] < docs[j]
	})
	res := &SearchResult{Status: &SearchStatus{Total: 1, Successful: 1}, Total: uint64(len(docs))}
	for _, d := range docs {
		if req.SearchAfter != nil {
			after := req.SearchAfter[0]
			if !desc && verifCorpusKeys[d] <= after {
				continue
			}
			if desc && verifCorpusKeys[d] >= after {
				continue
			}
		}
		if len(res.Hits) >= req.Size {
			break
		}
		res.Hits = append(res.Hits, &search.DocumentMatch{ID: verifCorpusIDs[d], Index: s.name, Score: 1, Sort: []string{verifCorpusKeys[d], verifCorpusIDs[d]}})
	}
	if fr, ok := req.Facets["byg"]; ok {
		counts := map[string]int{}
		total, missing := 0, 0
		for _, d := range docs {
			if verifCorpusFacet[d] == "" {
				missing++
			} else {
				counts[verifCorpusFacet[d]]++
				total++
			}
		}
		tf := &search.TermFacets{}
		for _, t := range []string{"x", "y"} {
			if counts[t] > 0 {
				tf.Add(&search.TermFacet{Term: t, Count: counts[t]})
			}
		}
		sort.Sort(tf)
		f := &search.FacetResult{Field: "g", Total: total, Missing: missing, Terms: tf}
		if tf.Len() > fr.Size {
			other := 0
			for _, t := range tf.Terms()[fr.Size:] {
				other += t.Count
			}
			tf.TrimToTopN(fr.Size)
			f.Other = other
		}
		res.Facets = search.FacetResults{"byg": f}
	}
	return res, nil
}

// VerifH_C09_MultiSearch: a corpus of n documents with a total order (field f then _id) is
// partitioned over up to three shards in every possible way (empty shards included), the shards are
// handed to MultiSearch in every order, with symbolic From/Size and optionally SearchAfter /
// SearchBefore: the merged result is exactly the page of the global order, Total is the corpus size,
// each child request asks for From+Size hits from 0, the facet counts are the sums.
func VerifH_C09_MultiSearch() {
	n := rt.Param("docs", 4)
	nsh := rt.Param("shards", 3)
	shards := make([]*verifShard, nsh)
	for i := range shards {
		shards[i] = &verifShard{name: string([]byte{'s', '0' + byte(i)})}
	}
	for d := 0; d < n; d++ {
		k := rt.Choice("shard_of", nsh)
		shards[k].docs = append(shards[k].docs, d)
	}
	// order in which the shards are given (their results arrive in that order in the executor)
	order := [][]int{{0, 1, 2}, {0, 2, 1}, {1, 0, 2}, {1, 2, 0}, {2, 0, 1}, {2, 1, 0}}[rt.Choice("order", 6)]
	var idxs []Index
	var prev *verifShard
	for _, o := range order {
		if o < nsh {
			idxs = append(idxs, shards[o])
			if prev != nil {
				shards[o].gate = make(chan struct{})
				prev.next = shards[o].gate
			}
			prev = shards[o]
		}
	}
	size := rt.Choice("size", 3) + 1
	from := rt.Choice("from", 3)
	mode := rt.Choice("mode", 3) // 0 plain, 1 search-after, 2 search-before
	req := NewSearchRequestOptions(NewMatchAllQuery(), size, from, false)
	req.SortByCustom(search.SortOrder{&search.SortField{Field: "f"}, &search.SortDocID{}})
	req.AddFacet("byg", NewFacetRequest("g", rt.Choice("facet_size", 2)+1))
	pivot := rt.Choice("pivot", n)
	lo, hi := 0, n // the documents the page is taken from: [lo,hi) in global order
	switch mode {
	case 1:
		req.From = 0
		from = 0
		req.SearchAfter = []string{verifCorpusKeys[pivot], verifCorpusIDs[pivot]}
		lo = pivot + 1
	case 2:
		req.From = 0
		from = 0
		req.SearchBefore = []string{verifCorpusKeys[pivot], verifCorpusIDs[pivot]}
		hi = pivot
	}
	sr, err := MultiSearch(context.Background(), req, nil, idxs...)
	rt.Assert(err == nil, "MultiSearch succeeds")
	rt.Assert(sr.Total == uint64(n), "Total is the size of the whole corpus")
	// expected page
	var want []int
	if mode == 2 {
		// the size documents immediately preceding the pivot, in ascending order
		start := hi - size
		if start < 0 {
			start = 0
		}
		for d := start; d < hi; d++ {
			want = append(want, d)
		}
	} else {
		for d := lo + from; d < hi && len(want) < size; d++ {
			want = append(want, d)
		}
	}
	rt.Assert(len(sr.Hits) == len(want), "page length")
	for p := range want {
		if p < len(sr.Hits) {
			rt.Assert(sr.Hits[p].ID == verifCorpusIDs[want[p]], "hit p is document p of the global order")
		}
	}
	for _, s := range shards {
		for _, cr := range s.reqs {
			rt.Assert(rt.And(cr.From == 0, cr.Size == size+from), "child requests ask for From+Size hits from the start")
		}
		rt.Assert(len(s.reqs) == 1, "every shard is asked once")
	}
	rt.Assert(rt.And(req.Size == size, req.From == from), "the caller's request is left as it was")
	if mode == 2 {
		rt.Assert(rt.And(req.SearchBefore != nil, req.SearchAfter == nil), "SearchBefore restored on the request")
		rt.Assert(!req.Sort[0].Descending(), "sort order restored on the request")
	}
	// facets: counts are sums over the corpus
	cx, cy, miss := 0, 0, 0
	for d := 0; d < n; d++ {
		switch verifCorpusFacet[d] {
		case "x":
			cx++
		case "y":
			cy++
		default:
			miss++
		}
	}
	f := sr.Facets["byg"]
	rt.Assert(f != nil, "facet present")
	if f != nil {
		rt.Assert(rt.And(f.Total == cx+cy, f.Missing == miss), "facet Total and Missing are sums over the shards")
		fs := req.Facets["byg"].Size
		listed := 0
		for _, t := range f.Terms.Terms() {
			if t.Term == "x" {
				rt.Assert(t.Count == cx, "count of x is the sum over shards")
			} else {
				rt.Assert(t.Count == cy, "count of y is the sum over shards")
			}
			listed += t.Count
		}
		if fs >= 2 {
			rt.Assert(f.Terms.Len() == 2, "both buckets listed when the facet size covers them")
		}
		rt.Assert(f.Other == f.Total-listed, "Other absorbs what is not listed")
	}
	rt.Cover(rt.And(len(shards[0].docs) == 0, len(sr.Hits) >= 2), "empty-shard")
	rt.Cover(rt.And(mode == 2, len(sr.Hits) >= 2), "search-before-page")
}
