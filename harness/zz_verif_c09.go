//go:build verif

package bleve

import (
	"context"
	"sort"
	"time"

	rt "github.com/blevesearch/bleve/v2/internal/verifrt"
	"github.com/blevesearch/bleve/v2/search"
	"github.com/blevesearch/bleve/v2/search/query"
	"github.com/blevesearch/bleve/v2/util"
)

// verifShard is a stub index holding some of the corpus's documents. It answers a search request
// correctly by construction: all its documents match, ordered by the request's sort (one string field
// "f" ascending or descending, then _id), restricted to those after the search-after key, truncated
// to the requested size; a terms facet on "g" counts its own documents.
type verifIndexIface = Index

type verifShard struct {
	verifIndexIface
	gate chan struct{} // closed when it is this shard's turn to answer
	next chan struct{} // the following shard's gate
	name string
	docs []int // indexes into the corpus
	reqs []*SearchRequest
}

var verifCorpusKeys = []string{"a", "b", "c", "d", "e"}
var verifCorpusIDs = []string{"d0", "d1", "d2", "d3", "d4"}
var verifCorpusFacet = []string{"x", "y", "y", "", "x"} // value of field g ("" = missing)

func (s *verifShard) Name() string { return s.name }

func (s *verifShard) SearchInContext(ctx context.Context, req *SearchRequest) (*SearchResult, error) {
	// answers arrive in the order the harness chose: wait for the turn, and give the previous shard's
	// result time to be delivered (natively goroutines are scheduled arbitrarily)
	if s.gate != nil {
		<-s.gate
		time.Sleep(3 * time.Millisecond)
	}
	defer func() {
		if s.next != nil {
			close(s.next)
		}
	}()
	s.reqs = append(s.reqs, req)
	desc := false
	if len(req.Sort) > 0 {
		desc = req.Sort[0].Descending()
	}
	docs := append([]int{}, s.docs...)
	sort.Slice(docs, func(i, j int) bool {
		if desc {
			return docs[i] > docs[j]
		}
		return docs[i] < docs[j]
	})
	res := &SearchResult{Status: &SearchStatus{Total: 1, Successful: 1}, Total: uint64(len(docs))}
	for _, d := range docs {
		if req.SearchAfter != nil {
			after := req.SearchAfter[0]
			if !desc && verifCorpusKeys[d] <= after {
				continue
			}
			if desc && verifCorpusKeys[d] >= after {
				continue
			}
		}
		if len(res.Hits) >= req.Size {
			break
		}
		res.Hits = append(res.Hits, &search.DocumentMatch{ID: verifCorpusIDs[d], Index: s.name, Score: 1, Sort: []string{verifCorpusKeys[d], verifCorpusIDs[d]}})
	}
	if fr, ok := req.Facets["byg"]; ok {
		counts := map[string]int{}
		total, missing := 0, 0
		for _, d := range docs {
			if verifCorpusFacet[d] == "" {
				missing++
			} else {
				counts[verifCorpusFacet[d]]++
				total++
			}
		}
		tf := &search.TermFacets{}
		for _, t := range []string{"x", "y"} {
			if counts[t] > 0 {
				tf.Add(&search.TermFacet{Term: t, Count: counts[t]})
			}
		}
		sort.Sort(tf)
		f := &search.FacetResult{Field: "g", Total: total, Missing: missing, Terms: tf}
		if tf.Len() > fr.Size {
			other := 0
			for _, t := range tf.Terms()[fr.Size:] {
				other += t.Count
			}
			tf.TrimToTopN(fr.Size)
			f.Other = other
		}
		res.Facets = search.FacetResults{"byg": f}
	}
	return res, nil
}

// VerifH_C09_MultiSearch: a corpus of n documents with a total order (field f then _id) is
// partitioned over up to three shards in every possible way (empty shards included), the shards are
// handed to MultiSearch in every order, with symbolic From/Size and optionally SearchAfter /
// SearchBefore: the merged result is exactly the page of the global order, Total is the corpus size,
// each child request asks for From+Size hits from 0, the facet counts are the sums.
func VerifH_C09_MultiSearch() {
	n := rt.Param("docs", 4)
	nsh := rt.Param("shards", 3)
	shards := make([]*verifShard, nsh)
	for i := range shards {
		shards[i] = &verifShard{name: string([]byte{'s', '0' + byte(i)})}
	}
	for d := 0; d < n; d++ {
		k := rt.Choice("shard_of", nsh)
		shards[k].docs = append(shards[k].docs, d)
	}
	// order in which the shards are given (their results arrive in that order in the executor)
	order := [][]int{{0, 1, 2}, {0, 2, 1}, {1, 0, 2}, {1, 2, 0}, {2, 0, 1}, {2, 1, 0}}[rt.Choice("order", 6)]
	var idxs []Index
	var prev *verifShard
	for _, o := range order {
		if o < nsh {
			idxs = append(idxs, shards[o])
			if prev != nil {
				shards[o].gate = make(chan struct{})
				prev.next = shards[o].gate
			}
			prev = shards[o]
		}
	}
	size := rt.Choice("size", 3) + 1
	from := []int{0, 1, 2, n, n + 1}[rt.Choice("from", 5)] // inside, at and beyond the end of the result
	mode := rt.Choice("mode", 3) // 0 plain, 1 search-after, 2 search-before
	req := NewSearchRequestOptions(NewMatchAllQuery(), size, from, false)
	req.SortByCustom(search.SortOrder{&search.SortField{Field: "f"}, &search.SortDocID{}})
	req.AddFacet("byg", NewFacetRequest("g", rt.Choice("facet_size", 2)+1))
	pivot := rt.Choice("pivot", n)
	lo, hi := 0, n // the documents the page is taken from: [lo,hi) in global order
	switch mode {
	case 1:
		req.From = 0
		from = 0
		req.SearchAfter = []string{verifCorpusKeys[pivot], verifCorpusIDs[pivot]}
		lo = pivot + 1
	case 2:
		req.From = 0
		from = 0
		req.SearchBefore = []string{verifCorpusKeys[pivot], verifCorpusIDs[pivot]}
		hi = pivot
	}
	sr, err := MultiSearch(context.Background(), req, nil, idxs...)
	rt.Assert(err == nil, "MultiSearch succeeds")
	rt.Assert(sr.Total == uint64(n), "Total is the size of the whole corpus")
	// expected page
	var want []int
	if mode == 2 {
		// the size documents immediately preceding the pivot, in ascending order
		start := hi - size
		if start < 0 {
			start = 0
		}
		for d := start; d < hi; d++ {
			want = append(want, d)
		}
	} else {
		for d := lo + from; d < hi && len(want) < size; d++ {
			want = append(want, d)
		}
	}
	rt.Assert(len(sr.Hits) == len(want), "page length")
	for p := range want {
		if p < len(sr.Hits) {
			rt.Assert(sr.Hits[p].ID == verifCorpusIDs[want[p]], "hit p is document p of the global order")
		}
	}
	for _, s := range shards {
		for _, cr := range s.reqs {
			rt.Assert(rt.And(cr.From == 0, cr.Size == size+from), "child requests ask for From+Size hits from the start")
		}
		rt.Assert(len(s.reqs) == 1, "every shard is asked once")
	}
	rt.Assert(rt.And(req.Size == size, req.From == from), "the caller's request is left as it was")
	if mode == 2 {
		rt.Assert(rt.And(req.SearchBefore != nil, req.SearchAfter == nil), "SearchBefore restored on the request")
		rt.Assert(!req.Sort[0].Descending(), "sort order restored on the request")
	}
	// facets: counts are sums over the corpus
	cx, cy, miss := 0, 0, 0
	for d := 0; d < n; d++ {
		switch verifCorpusFacet[d] {
		case "x":
			cx++
		case "y":
			cy++
		default:
			miss++
		}
	}
	f := sr.Facets["byg"]
	rt.Assert(f != nil, "facet present")
	if f != nil {
		rt.Assert(rt.And(f.Total == cx+cy, f.Missing == miss), "facet Total and Missing are sums over the shards")
		fs := req.Facets["byg"].Size
		listed := 0
		for _, t := range f.Terms.Terms() {
			if t.Term == "x" {
				rt.Assert(t.Count == cx, "count of x is the sum over shards")
			} else {
				rt.Assert(t.Count == cy, "count of y is the sum over shards")
			}
			listed += t.Count
		}
		if fs >= 2 {
			rt.Assert(f.Terms.Len() == 2, "both buckets listed when the facet size covers them")
		}
		rt.Assert(f.Other == f.Total-listed, "Other absorbs what is not listed")
	}
	rt.Cover(rt.And(len(shards[0].docs) == 0, len(sr.Hits) >= 2), "empty-shard")
	rt.Cover(rt.And(mode == 2, len(sr.Hits) >= 2), "search-before-page")
	rt.Cover(rt.And(mode == 0, from >= n, len(sr.Hits) == 0), "page-beyond-the-result")
}

// VerifH_C09_ChildRequest: what every shard is asked is the caller's request (query, sort with every
// option, facets, fields, flags, paging keys) with only From/Size rewritten; symbolic sort options.
func VerifH_C09_ChildRequest() {
	shards := []*verifShard{{name: "s0", docs: []int{0, 2}}, {name: "s1", docs: []int{1, 3}}}
	shards[1].gate = make(chan struct{})
	shards[0].next = shards[1].gate
	size := rt.Choice("size", 2) + 1
	from := rt.Choice("from", 2)
	mode := rt.Choice("mode", 3)
	req := NewSearchRequestOptions(NewMatchAllQuery(), size, from, rt.Bool("explain"))
	sf := &search.SortField{Field: "f", Desc: rt.Bool("desc"), Type: search.SortFieldType(rt.U8("type")), Mode: search.SortFieldMode(rt.U8("mode_")), Missing: search.SortFieldMissing(rt.U8("missing"))}
	rt.Assume(rt.And(sf.Type >= 0, sf.Type <= search.SortFieldAsDate, sf.Mode >= 0, sf.Mode <= search.SortFieldMax, sf.Missing >= 0, sf.Missing <= search.SortFieldMissingFirst))
	sd := &search.SortDocID{Desc: rt.Bool("id_desc")}
	ss := &search.SortScore{Desc: rt.Bool("score_desc")}
	req.SortByCustom(search.SortOrder{sf, ss, sd})
	req.IncludeLocations = rt.Bool("locations")
	req.Fields = []string{"f", "g"}
	req.Score = []string{"", "none"}[rt.Choice("score", 2)]
	req.AddFacet("byg", NewFacetRequest("g", 2))
	pivot := []string{verifCorpusKeys[1], "1", verifCorpusIDs[1]}
	switch mode {
	case 1:
		req.From, from = 0, 0
		req.SearchAfter = pivot
	case 2:
		req.From, from = 0, 0
		req.SearchBefore = pivot
	}
	want := *sf
	wantSD, wantSS := *sd, *ss
	_, err := MultiSearch(context.Background(), req, nil, shards[0], shards[1])
	rt.Assert(err == nil, "MultiSearch succeeds")
	for _, s := range shards {
		rt.Assert(len(s.reqs) == 1, "every shard is asked once")
		for _, cr := range s.reqs {
			rt.Assert(rt.And(cr.From == 0, cr.Size == size+from), "child requests ask for From+Size hits from the start")
			rt.Assert(rt.And(cr.Explain == req.Explain, cr.IncludeLocations == req.IncludeLocations, cr.Score == req.Score, len(cr.Fields) == 2, cr.Query == req.Query), "child request carries the caller's query, fields and flags")
			rt.Assert(rt.And(len(cr.Facets) == 1, cr.Facets["byg"] == req.Facets["byg"]), "child request carries the facet requests")
			rt.Assert(len(cr.Sort) == 3, "child request carries every sort key")
			if len(cr.Sort) != 3 {
				continue
			}
			csf, ok1 := cr.Sort[0].(*search.SortField)
			css, ok2 := cr.Sort[1].(*search.SortScore)
			csd, ok3 := cr.Sort[2].(*search.SortDocID)
			rt.Assert(ok1 && ok2 && ok3, "child sort keys have the caller's kinds, in order")
			if !(ok1 && ok2 && ok3) {
				continue
			}
			// with SearchBefore the request is executed reversed (and the shards are asked in that form)
			exp, expSD, expSS := want, wantSD, wantSS
			if mode == 2 {
				exp.Reverse()
				expSD.Reverse()
				expSS.Reverse()
			}
			rt.Assert(rt.And(csf.Field == exp.Field, csf.Desc == exp.Desc, csf.Type == exp.Type, csf.Mode == exp.Mode, csf.Missing == exp.Missing),
				"child field sort has the caller's field, direction, type, mode and missing policy")
			rt.Assert(rt.And(csd.Desc == expSD.Desc, css.Desc == expSS.Desc), "child id/score sorts have the caller's direction")
			switch mode {
			case 0:
				rt.Assert(rt.And(cr.SearchAfter == nil, cr.SearchBefore == nil), "no paging key invented")
			case 1:
				rt.Assert(rt.And(len(cr.SearchAfter) == 3, cr.SearchBefore == nil), "search-after key passed on")
			case 2:
				rt.Assert(rt.And(len(cr.SearchAfter) == 3, cr.SearchBefore == nil), "search-before executed as search-after on the reversed sort")
			}
		}
	}
	rt.Assert(rt.And(sf.Desc == want.Desc, sf.Type == want.Type, sf.Mode == want.Mode, sf.Missing == want.Missing, sd.Desc == wantSD.Desc, ss.Desc == wantSS.Desc),
		"the caller's sort is as it was after the search")
	rt.Cover(rt.And(mode == 2, sf.Missing == search.SortFieldMissingFirst), "search-before-missing-first")
	rt.Cover(rt.And(mode == 0, sf.Missing == search.SortFieldMissingFirst, sf.Desc), "missing-first-desc")
}

var verifDateStart = time.Date(2020, 1, 2, 3, 4, 5, 123456789, time.UTC)
var verifDateEnd = time.Date(2021, 6, 7, 8, 9, 10, 500000000, time.UTC)

// VerifH_C17_SearchRequestJSON: a search request (term query; size, from, explain, includeLocations,
// score mode, stored fields, a terms facet and a numeric range facet, highlight style and fields,
// search_after key, and a sort of a field key - direction / type / mode / missing policy chosen among
// all combinations - followed by score or _id) serialised to JSON and parsed back is the same request,
// option by option, and serialises to the same JSON again.
func VerifH_C17_SearchRequestJSON() {
	size, from := rt.Int("size"), rt.Int("from")
	rt.Assume(rt.And(size >= 0, size <= 100, from >= 0, from <= 100))
	req := NewSearchRequestOptions(NewTermQuery("t"), size, from, rt.Bool("explain"))
	extras := rt.Choice("extras", 2) == 1 // stored fields, facets, highlight and search_after together
	req.IncludeLocations = rt.Bool("locations")
	req.Score = []string{"", "none"}[rt.Choice("score", 2)]
	if extras {
		req.Fields = []string{"a", "*"}
	}
	sf := &search.SortField{Field: "f", Desc: rt.Choice("desc", 2) == 1, Type: search.SortFieldType(rt.Choice("type", 4)),
		Mode: search.SortFieldMode(rt.Choice("mode", 3)), Missing: search.SortFieldMissing(rt.Choice("missing", 2))}
	second := rt.Choice("second_key", 3)
	so := search.SortOrder{sf}
	switch second {
	case 1:
		so = append(so, &search.SortDocID{Desc: rt.Choice("id_desc", 2) == 1})
	case 2:
		so = append(so, &search.SortScore{Desc: rt.Choice("score_desc", 2) == 1})
	}
	req.SortByCustom(so)
	withFacets := extras
	if withFacets {
		req.AddFacet("terms", NewFacetRequest("g", rt.Choice("facet_size", 2)+1))
		nf := NewFacetRequest("n", 3)
		lo, hi := 1.0, 5.0
		nf.AddNumericRange("low", nil, &lo)
		nf.AddNumericRange("mid", &lo, &hi)
		req.AddFacet("ranges", nf)
		df := NewFacetRequest("d", 2)
		df.AddDateTimeRange("recent", verifDateStart, verifDateEnd)
		req.AddFacet("dates", df)
	}
	withHL := extras
	if withHL {
		req.Highlight = NewHighlightWithStyle("html")
		req.Highlight.AddField("a")
	}
	withAfter := extras
	if withAfter {
		req.SearchAfter = []string{"k", "d1"}[:len(so)]
	}
	data, err := util.MarshalJSON(req)
	rt.Assert(err == nil, "request serialises")
	var back SearchRequest
	err = util.UnmarshalJSON(data, &back)
	rt.Assert(err == nil, "serialised request parses")
	if err != nil {
		return
	}
	rt.Assert(rt.And(back.Size == req.Size, back.From == req.From, back.Explain == req.Explain, back.IncludeLocations == req.IncludeLocations, back.Score == req.Score),
		"size, from, explain, includeLocations and score mode survive")
	rt.Assert(len(back.Fields) == len(req.Fields), "stored fields survive")
	tq, ok := back.Query.(*query.TermQuery)
	rt.Assert(ok && tq.Term == "t", "query survives")
	rt.Assert(len(back.Sort) == len(so), "every sort key survives")
	if len(back.Sort) == len(so) {
		bsf, ok := back.Sort[0].(*search.SortField)
		rt.Assert(ok, "field sort key survives as a field sort key")
		if ok {
			rt.Assert(rt.And(bsf.Field == sf.Field, bsf.Desc == sf.Desc, bsf.Type == sf.Type, bsf.Mode == sf.Mode, bsf.Missing == sf.Missing),
				"field sort key keeps field, direction, type, mode and missing policy")
		}
		switch second {
		case 1:
			b, ok := back.Sort[1].(*search.SortDocID)
			rt.Assert(ok && b.Desc == so[1].(*search.SortDocID).Desc, "_id sort key survives with its direction")
		case 2:
			b, ok := back.Sort[1].(*search.SortScore)
			rt.Assert(ok && b.Desc == so[1].(*search.SortScore).Desc, "score sort key survives with its direction")
		}
	}
	rt.Assert(len(back.Facets) == len(req.Facets), "facet requests survive")
	if withFacets && len(back.Facets) == 3 {
		if d := back.Facets["dates"]; d != nil && len(d.DateTimeRanges) == 1 {
			r := d.DateTimeRanges[0]
			rt.Assert(rt.And(r.Name == "recent", r.startString != nil, r.endString != nil), "date range keeps its name and both ends")
			if r.startString != nil && r.endString != nil {
				st, err1 := time.Parse(time.RFC3339Nano, *r.startString)
				en, err2 := time.Parse(time.RFC3339Nano, *r.endString)
				rt.Assert(err1 == nil && err2 == nil, "date range ends are RFC 3339 text")
				rt.Assert(st.Equal(verifDateStart) && en.Equal(verifDateEnd), "date range ends survive to the nanosecond")
			}
		} else {
			rt.Fail("date range facet survives")
		}
		t, n := back.Facets["terms"], back.Facets["ranges"]
		rt.Assert(rt.And(t != nil, n != nil), "facet names survive")
		if t != nil && n != nil {
			rt.Assert(rt.And(t.Field == "g", t.Size == req.Facets["terms"].Size, n.Field == "n", n.Size == 3, len(n.NumericRanges) == 2), "facet fields, sizes and ranges survive")
			if len(n.NumericRanges) == 2 {
				r0, r1 := n.NumericRanges[0], n.NumericRanges[1]
				rt.Assert(rt.And(r0.Name == "low", r0.Min == nil, r0.Max != nil, r1.Name == "mid", r1.Min != nil, r1.Max != nil), "numeric ranges keep their names and open ends")
				if r0.Max != nil && r1.Min != nil && r1.Max != nil {
					rt.Assert(rt.And(*r0.Max == 1.0, *r1.Min == 1.0, *r1.Max == 5.0), "numeric range bounds survive")
				}
			}
		}
	}
	rt.Assert((back.Highlight != nil) == withHL, "highlight request survives")
	if withHL && back.Highlight != nil {
		rt.Assert(rt.And(back.Highlight.Style != nil, len(back.Highlight.Fields) == 1), "highlight style and fields survive")
	}
	rt.Assert(len(back.SearchAfter) == len(req.SearchAfter), "search_after key survives")
	data2, err := util.MarshalJSON(&back)
	rt.Assert(err == nil, "parsed request serialises")
	rt.Assert(rt.JSONEqual(data, data2), "the parsed request serialises to the same JSON")
	rt.Cover(rt.And(sf.Missing == search.SortFieldMissingFirst, sf.Desc, second == 1), "object-form-sort-with-id")
	rt.Cover(rt.And(sf.Missing == search.SortFieldMissingLast, sf.Mode == search.SortFieldDefault, sf.Type == search.SortFieldAuto, sf.Desc), "string-form-descending-sort")
}
