//go:build verif

// Package verifrt is the tiny runtime the verification harnesses are written against.
// Under the symbolic executor (symgo) every function here is intercepted; this file is the
// native implementation used to replay solver counterexamples and cover witnesses against the real build.
package verifrt

import (
	"math"
	"strconv"
	"sync"
)

type state struct {
	vals     map[string]uint64
	seqs     map[string]int
	params   map[string]int
	covers   map[string]bool
	diverged bool
}

var cur *state

// AssertFailed and AssumeFailed are the panic values raised natively.
type AssertFailed struct{ Label string }
type AssumeFailed struct{}

// Begin installs the input values of one replay; End returns what was observed.
func Begin(vals map[string]uint64, params map[string]int) {
	cur = &state{vals: vals, seqs: map[string]int{}, params: params, covers: map[string]bool{}}
}

func End() (covers []string, diverged bool) {
	if cur == nil {
		return nil, false
	}
	for c := range cur.covers {
		covers = append(covers, c)
	}
	return covers, cur.diverged
}

func next(label string) uint64 {
	if cur == nil {
		panic("verifrt: nondet outside a replay")
	}
	seq := cur.seqs[label]
	cur.seqs[label] = seq + 1
	v, ok := cur.vals[label+"#"+strconv.Itoa(seq)]
	if !ok {
		cur.diverged = true
	}
	return v
}

func U8(label string) uint8    { return uint8(next(label)) }
func U16(label string) uint16  { return uint16(next(label)) }
func U32(label string) uint32  { return uint32(next(label)) }
func U64(label string) uint64  { return next(label) }
func I64(label string) int64   { return int64(next(label)) }
func Int(label string) int     { return int(int64(next(label))) }
func Bool(label string) bool   { return next(label)&1 == 1 }
func F64(label string) float64 { return math.Float64frombits(next(label)) }

func Bytes(label string, n int) []byte {
	b := make([]byte, n)
	for i := range b {
		b[i] = uint8(next(label))
	}
	return b
}

func String(label string, n int) string { return string(Bytes(label, n)) }

// Choice returns a value in [0,n); under symgo it is a recorded case split.
func Choice(label string, n int) int {
	v := int(next(label))
	if v < 0 || v >= n {
		cur.diverged = true
		return 0
	}
	return v
}

// Param returns a bound chosen by the check's tier.
func Param(name string, def int) int {
	if cur != nil {
		if v, ok := cur.params[name]; ok {
			return v
		}
	}
	return def
}

// Symbolic reports whether the harness runs under the symbolic executor.
func Symbolic() bool { return false }

func Assume(c bool) {
	if !c {
		panic(AssumeFailed{})
	}
}

func Assert(c bool, label string) {
	if !c {
		panic(AssertFailed{label})
	}
}

func Fail(label string) { panic(AssertFailed{label}) }

func Cover(c bool, label string) {
	if c && cur != nil {
		cur.covers[label] = true
	}
}

func And(cs ...bool) bool {
	for _, c := range cs {
		if !c {
			return false
		}
	}
	return true
}

func Or(cs ...bool) bool {
	for _, c := range cs {
		if c {
			return true
		}
	}
	return false
}

func Not(a bool) bool        { return !a }
func Implies(a, b bool) bool { return !a || b }

func IteU64(c bool, a, b uint64) uint64 {
	if c {
		return a
	}
	return b
}
func IteI64(c bool, a, b int64) int64 {
	if c {
		return a
	}
	return b
}
func IteInt(c bool, a, b int) int {
	if c {
		return a
	}
	return b
}
func IteU8(c bool, a, b uint8) uint8 {
	if c {
		return a
	}
	return b
}
func IteBool(c bool, a, b bool) bool {
	if c {
		return a
	}
	return b
}
func IteF64(c bool, a, b float64) float64 {
	if c {
		return a
	}
	return b
}
func IteString(c bool, a, b string) string {
	if c {
		return a
	}
	return b
}

func Popcount64(x uint64) uint64 {
	n := uint64(0)
	for ; x != 0; x &= x - 1 {
		n++
	}
	return n
}

func EqBytes(a, b []byte) bool   { return string(a) == string(b) }
func LessBytes(a, b []byte) bool { return string(a) < string(b) }
func EqString(a, b string) bool  { return a == b }
func LessString(a, b string) bool { return a < b }

// Note records an observation for the evidence samples (no-op natively).
func Note(key string, v any) {}

// MutexFree reports whether the mutex is currently not held by anyone.
func MutexFree(m any) bool {
	switch mu := m.(type) {
	case *sync.Mutex:
		if mu.TryLock() {
			mu.Unlock()
			return true
		}
		return false
	case *sync.RWMutex:
		if mu.TryLock() {
			mu.Unlock()
			return true
		}
		return false
	}
	panic("verifrt.MutexFree: unsupported type")
}

