//go:build verif

package verifrt

import "github.com/RoaringBitmap/roaring/v2"

// BitmapFromBits builds a bitmap holding i for every set bit i of bits (i < 64).
// Under symgo bitmaps are modelled as one 64-bit vector, so this is the identity there.
func BitmapFromBits(bits uint64) *roaring.Bitmap {
	bm := roaring.New()
	for i := uint32(0); i < 64; i++ {
		if bits>>i&1 == 1 {
			bm.Add(i)
		}
	}
	return bm
}

// BitmapBits returns the members below 64 as a bit vector (nil bitmap = empty).
func BitmapBits(bm *roaring.Bitmap) uint64 {
	if bm == nil {
		return 0
	}
	var b uint64
	it := bm.Iterator()
	for it.HasNext() {
		x := it.Next()
		if x < 64 {
			b |= 1 << x
		}
	}
	return b
}
