//go:build verif

package verifrt

import "bytes"

// JSONEqual reports whether two JSON texts produced by json.Marshal are the same text.
// Under symgo JSON texts are abstract trees and this is their structural equality.
func JSONEqual(a, b []byte) bool { return bytes.Equal(a, b) }
