//go:build verif

// Package replay runs solver witnesses natively against the harnesses of one package.
package replay

import (
	"encoding/json"
	"fmt"
	"os"
	"path/filepath"
	"sort"
	"testing"
	"time"

	rt "github.com/blevesearch/bleve/v2/internal/verifrt"
)

type nondetRec struct {
	Label string `json:"label"`
	Seq   int    `json:"seq"`
	Kind  string `json:"kind"`
	W     int    `json:"w"`
	Value uint64 `json:"value"`
}

type witness struct {
	Harness string         `json:"harness"`
	Kind    string         `json:"kind"`
	Label   string         `json:"label"`
	Nondet  []nondetRec    `json:"nondet"`
	Params  map[string]int `json:"params"`
}


type Outcome struct {
	File     string   `json:"file"`
	Harness  string   `json:"harness"`
	Outcome  string   `json:"outcome"` // "ok", "assert:<label>", "panic:<msg>", "timeout", "assume-failed", "no-harness"
	Covers   []string `json:"covers"`
	Diverged bool     `json:"diverged"`
	Seconds  float64  `json:"seconds"`
}

// RunReplay runs every witness file in $VERIF_REPLAY_DIR that names one of the given harnesses
// and writes one JSON line per witness to $VERIF_REPLAY_OUT.
func RunReplay(t *testing.T, harnesses map[string]func()) {
	dir := os.Getenv("VERIF_REPLAY_DIR")
	if dir == "" {
		t.Skip("VERIF_REPLAY_DIR not set")
	}
	files, _ := filepath.Glob(filepath.Join(dir, "*.json"))
	sort.Strings(files)
	out, err := os.OpenFile(os.Getenv("VERIF_REPLAY_OUT"), os.O_APPEND|os.O_CREATE|os.O_WRONLY, 0o644)
	if err != nil {
		t.Fatal(err)
	}
	defer out.Close()
	timeout := 20 * time.Second
	if s := os.Getenv("VERIF_REPLAY_TIMEOUT_S"); s != "" {
		var n int
		fmt.Sscanf(s, "%d", &n)
		if n > 0 {
			timeout = time.Duration(n) * time.Second
		}
	}
	for _, f := range files {
		raw, err := os.ReadFile(f)
		if err != nil {
			continue
		}
		var w witness
		if json.Unmarshal(raw, &w) != nil {
			continue
		}
		h, ok := harnesses[w.Harness]
		if !ok {
			continue
		}
		vals := map[string]uint64{}
		for _, n := range w.Nondet {
			vals[fmt.Sprintf("%s#%d", n.Label, n.Seq)] = n.Value
		}
		rt.Begin(vals, w.Params)
		res := make(chan string, 1)
		t0 := time.Now()
		go func() {
			defer func() {
				if r := recover(); r != nil {
					switch e := r.(type) {
					case rt.AssertFailed:
						res <- "assert:" + e.Label
					case rt.AssumeFailed:
						res <- "assume-failed"
					default:
						res <- fmt.Sprintf("panic:%v", r)
					}
				}
			}()
			h()
			res <- "ok"
		}()
		var oc string
		select {
		case oc = <-res:
		case <-time.After(timeout):
			oc = "timeout"
		}
		covers, diverged := rt.End()
		o := Outcome{File: filepath.Base(f), Harness: w.Harness, Outcome: oc, Diverged: diverged, Seconds: time.Since(t0).Seconds(), Covers: covers}
		sort.Strings(o.Covers)
		b, _ := json.Marshal(o)
		out.Write(append(b, '\n'))
		if oc == "timeout" {
			// the harness goroutine is still running: nothing else can be replayed safely in this process
			out.Close()
			os.Exit(0)
		}
	}
}
