//go:build verif

package verifrt

import (
	"os"
	"path/filepath"
)

// CopyTree copies every regular file of directory src into directory dst (created if needed):
// the state a process killed at this instant would leave behind. Under symgo the modelled
// file system and bolt files are cloned instead.
func CopyTree(src, dst string) error {
	if err := os.MkdirAll(dst, 0o700); err != nil {
		return err
	}
	ents, err := os.ReadDir(src)
	if err != nil {
		return err
	}
	for _, e := range ents {
		if e.IsDir() {
			continue
		}
		data, err := os.ReadFile(filepath.Join(src, e.Name()))
		if err != nil {
			return err
		}
		if err := os.WriteFile(filepath.Join(dst, e.Name()), data, 0o600); err != nil {
			return err
		}
	}
	return nil
}
