//go:build verif

package query

import (
	rt "github.com/blevesearch/bleve/v2/internal/verifrt"
	"github.com/blevesearch/bleve/v2/util"
)

// VerifH_C17_ParseRobust: the query string parser (lexer state machine + generated parser) on every
// string of up to max_len bytes drawn from the full byte range (alphabet 0) or from the operator
// alphabet `+-:^~"\ <>=` plus a letter, a digit and a dot (alphabet 1): it terminates, no panic
// escapes, and it returns either a query or an error, never both or neither.
func VerifH_C17_ParseRobust() { verifParse(rt.Param("alphabet", 0) == 1) }

// VerifH_C17_ParseOperators: longer inputs over the operator alphabet.
func VerifH_C17_ParseOperators() { verifParse(true) }

func verifParse(opsOnly bool) {
	maxLen := rt.Param("max_len", 3)
	n := rt.Choice("len", maxLen) + 1
	s := rt.String("q", n)
	if opsOnly {
		ops := "+-:^~\"\\ <>=a1."
		for i := 0; i < n; i++ {
			ok := false
			for j := 0; j < len(ops); j++ {
				ok = rt.Or(ok, s[i] == ops[j])
			}
			rt.Assume(ok)
		}
	}
	q, err := parseQuerySyntax(s)
	rt.Assert((q == nil) != (err == nil), "the parser returns a query or an error, exactly one of them")
	rt.Cover(err != nil, "rejected")
	rt.Cover(q != nil, "accepted")
}

func verifStr(label string) string {
	s := rt.String(label, 1)
	rt.Assume(rt.And(s[0] >= 'a', s[0] <= 'z'))
	return s
}

func verifField(label string) string {
	if rt.Choice(label+"_set", 2) == 1 {
		return verifStr(label)
	}
	return ""
}

func verifBoost() *Boost {
	if rt.Choice("boost_set", 2) == 1 {
		b := Boost(rt.F64("boost"))
		rt.Assume(rt.And(float64(b) >= 0.5, float64(b) <= 100))
		return &b
	}
	return nil
}

func verifEqBoost(a, b *Boost) bool {
	if a == nil || b == nil {
		return a == nil && b == nil
	}
	return *a == *b
}

// verifLeaf builds one leaf query of a symbolically chosen kind with symbolic option values, and
// returns it with a checker that says whether another query is structurally the same.
func verifLeafQuery() (Query, func(Query) bool) {
	switch rt.Choice("kind", 9) {
	case 0:
		q := &TermQuery{Term: verifStr("term"), FieldVal: verifField("field"), BoostVal: verifBoost()}
		return q, func(o Query) bool {
			p, ok := o.(*TermQuery)
			return ok && rt.And(rt.EqString(p.Term, q.Term), rt.EqString(p.FieldVal, q.FieldVal), verifEqBoost(p.BoostVal, q.BoostVal))
		}
	case 1:
		q := &MatchQuery{Match: verifStr("match"), FieldVal: verifField("field"), Analyzer: verifField("analyzer"), BoostVal: verifBoost(),
			Prefix: rt.Choice("prefix_len", 3), Fuzziness: rt.Choice("fuzziness", 3), Operator: MatchQueryOperator(rt.Choice("operator", 2))}
		return q, func(o Query) bool {
			p, ok := o.(*MatchQuery)
			return ok && rt.And(rt.EqString(p.Match, q.Match), rt.EqString(p.FieldVal, q.FieldVal), rt.EqString(p.Analyzer, q.Analyzer),
				verifEqBoost(p.BoostVal, q.BoostVal), p.Prefix == q.Prefix, p.Fuzziness == q.Fuzziness, p.Operator == q.Operator)
		}
	case 2:
		q := &MatchPhraseQuery{MatchPhrase: verifStr("phrase"), FieldVal: verifField("field"), Analyzer: verifField("analyzer"), BoostVal: verifBoost(), Fuzziness: rt.Choice("fuzziness", 3)}
		return q, func(o Query) bool {
			p, ok := o.(*MatchPhraseQuery)
			return ok && rt.And(rt.EqString(p.MatchPhrase, q.MatchPhrase), rt.EqString(p.FieldVal, q.FieldVal), rt.EqString(p.Analyzer, q.Analyzer),
				verifEqBoost(p.BoostVal, q.BoostVal), p.Fuzziness == q.Fuzziness)
		}
	case 3:
		q := &PrefixQuery{Prefix: verifStr("prefix"), FieldVal: verifField("field"), BoostVal: verifBoost()}
		return q, func(o Query) bool {
			p, ok := o.(*PrefixQuery)
			return ok && rt.And(rt.EqString(p.Prefix, q.Prefix), rt.EqString(p.FieldVal, q.FieldVal), verifEqBoost(p.BoostVal, q.BoostVal))
		}
	case 4:
		q := &FuzzyQuery{Term: verifStr("term"), Prefix: rt.Choice("prefix_len", 3), Fuzziness: rt.Choice("fuzziness", 3), FieldVal: verifField("field"), BoostVal: verifBoost()}
		return q, func(o Query) bool {
			p, ok := o.(*FuzzyQuery)
			return ok && rt.And(rt.EqString(p.Term, q.Term), p.Prefix == q.Prefix, p.Fuzziness == q.Fuzziness, rt.EqString(p.FieldVal, q.FieldVal), verifEqBoost(p.BoostVal, q.BoostVal))
		}
	case 5:
		q := &NumericRangeQuery{FieldVal: verifField("field"), BoostVal: verifBoost()}
		if rt.Choice("min_set", 2) == 1 {
			v := rt.F64("min")
			rt.Assume(v == v)
			q.Min = &v
		}
		if rt.Choice("max_set", 2) == 1 {
			v := rt.F64("max")
			rt.Assume(v == v)
			q.Max = &v
		}
		rt.Assume(q.Min != nil || q.Max != nil)
		if rt.Choice("incmin_set", 2) == 1 {
			b := rt.Bool("incmin")
			q.InclusiveMin = &b
		}
		if rt.Choice("incmax_set", 2) == 1 {
			b := rt.Bool("incmax")
			q.InclusiveMax = &b
		}
		eqF := func(a, b *float64) bool {
			if a == nil || b == nil {
				return a == nil && b == nil
			}
			return *a == *b
		}
		eqB := func(a, b *bool) bool {
			if a == nil || b == nil {
				return a == nil && b == nil
			}
			return *a == *b
		}
		return q, func(o Query) bool {
			p, ok := o.(*NumericRangeQuery)
			return ok && rt.And(eqF(p.Min, q.Min), eqF(p.Max, q.Max), eqB(p.InclusiveMin, q.InclusiveMin), eqB(p.InclusiveMax, q.InclusiveMax),
				rt.EqString(p.FieldVal, q.FieldVal), verifEqBoost(p.BoostVal, q.BoostVal))
		}
	case 6:
		q := &BoolFieldQuery{Bool: rt.Bool("bool"), FieldVal: verifField("field"), BoostVal: verifBoost()}
		return q, func(o Query) bool {
			p, ok := o.(*BoolFieldQuery)
			return ok && rt.And(p.Bool == q.Bool, rt.EqString(p.FieldVal, q.FieldVal), verifEqBoost(p.BoostVal, q.BoostVal))
		}
	case 7:
		q := &DocIDQuery{IDs: []string{verifStr("id"), verifStr("id")}, BoostVal: verifBoost()}
		return q, func(o Query) bool {
			p, ok := o.(*DocIDQuery)
			return ok && len(p.IDs) == 2 && rt.And(rt.EqString(p.IDs[0], q.IDs[0]), rt.EqString(p.IDs[1], q.IDs[1]), verifEqBoost(p.BoostVal, q.BoostVal))
		}
	default:
		q := &MatchAllQuery{BoostVal: verifBoost()}
		return q, func(o Query) bool {
			p, ok := o.(*MatchAllQuery)
			return ok && verifEqBoost(p.BoostVal, q.BoostVal)
		}
	}
}

// VerifH_C17_QueryJSON: every leaf query kind above with symbolic option values, alone or as a clause
// of a conjunction, a disjunction with minimum or a boolean query, is serialised with its own
// MarshalJSON (or the default struct encoding) and parsed with ParseQuery: the parser picks the same
// query type and every option has the same value; serialising the parsed query gives the same JSON.
func VerifH_C17_QueryJSON() {
	leaf, same := verifLeafQuery()
	var q Query = leaf
	check := same
	switch rt.Choice("wrap", 4) {
	case 1:
		cq := NewConjunctionQuery([]Query{leaf, NewMatchNoneQuery()})
		cq.BoostVal = verifBoost()
		q = cq
		check = func(o Query) bool {
			p, ok := o.(*ConjunctionQuery)
			if !ok || len(p.Conjuncts) != 2 {
				return false
			}
			_, none := p.Conjuncts[1].(*MatchNoneQuery)
			return rt.And(none, same(p.Conjuncts[0]), verifEqBoost(p.BoostVal, cq.BoostVal))
		}
	case 2:
		dq := NewDisjunctionQuery([]Query{leaf})
		dq.SetMin(float64(rt.Choice("min", 3)))
		q = dq
		check = func(o Query) bool {
			p, ok := o.(*DisjunctionQuery)
			return ok && len(p.Disjuncts) == 1 && rt.And(p.Min == dq.Min, same(p.Disjuncts[0]))
		}
	case 3:
		bq := NewBooleanQuery([]Query{leaf}, nil, []Query{NewMatchNoneQuery()})
		q = bq
		check = func(o Query) bool {
			p, ok := o.(*BooleanQuery)
			if !ok || p.Must == nil || p.MustNot == nil || p.Should != nil {
				return false
			}
			m, ok := p.Must.(*ConjunctionQuery)
			if !ok || len(m.Conjuncts) != 1 {
				return false
			}
			n, ok := p.MustNot.(*DisjunctionQuery)
			return ok && len(n.Disjuncts) == 1 && same(m.Conjuncts[0])
		}
	}
	data, err := util.MarshalJSON(q)
	rt.Assert(err == nil, "query serialises")
	back, err := ParseQuery(data)
	rt.Assert(err == nil, "serialised query parses")
	if err != nil {
		return
	}
	rt.Assert(check(back), "the parsed query has the same type and the same option values")
	data2, err := util.MarshalJSON(back)
	rt.Assert(err == nil, "parsed query serialises")
	rt.Assert(rt.JSONEqual(data, data2), "the parsed query serialises to the same JSON")
	rt.Cover(true, "round-trip-done")
}

// ---- query string syntax: meaning of well-formed input ----

type verifClause struct {
	pre   int // 0 optional, 1 required (+), 2 excluded (-)
	kind  int
	field string // "" = none
	w1    string
	w2    string
	text  string
}

func verifWord(label string, n int) string {
	s := rt.String(label, n)
	for i := 0; i < n; i++ {
		rt.Assume(rt.And(s[i] >= 'a', s[i] <= 'z'))
	}
	return s
}

const (
	vqTerm = iota
	vqPhrase
	vqFuzzy
	vqBoost
	vqGT
	vqGE
	vqLT
	vqLE
	vqNumEq
	vqKinds
)

func verifMakeClause() *verifClause {
	c := &verifClause{pre: rt.Choice("prefix", 3), kind: rt.Choice("clause", vqKinds)}
	if c.kind >= vqGT || rt.Choice("scoped", 2) == 1 {
		c.field = verifWord("fieldname", 1)
	}
	c.w1 = verifWord("word", 2)
	t := []string{"", "+", "-"}[c.pre]
	if c.field != "" {
		t += c.field + ":"
	}
	switch c.kind {
	case vqTerm:
		t += c.w1
	case vqPhrase:
		c.w2 = verifWord("word", 1)
		t += "\"" + c.w1 + " " + c.w2 + "\""
	case vqFuzzy:
		t += c.w1 + "~2"
	case vqBoost:
		t += c.w1 + "^3"
	case vqGT:
		t += ">5"
	case vqGE:
		t += ">=5"
	case vqLT:
		t += "<5"
	case vqLE:
		t += "<=5"
	case vqNumEq:
		t += "-5"
	}
	c.text = t
	return c
}

func verifNumIs(p *float64, v float64) bool { return p != nil && *p == v }
func verifBoolIs(p *bool, v bool) bool      { return p != nil && *p == v }

// verifClauseIs: q is the query the syntax documents for the clause.
func verifClauseIs(c *verifClause, q Query) bool {
	switch c.kind {
	case vqTerm, vqFuzzy, vqBoost:
		m, ok := q.(*MatchQuery)
		if !ok {
			return false
		}
		fz := 0
		if c.kind == vqFuzzy {
			fz = 2
		}
		okBoost := m.BoostVal == nil
		if c.kind == vqBoost {
			okBoost = m.BoostVal != nil && float64(*m.BoostVal) == 3
		}
		return rt.And(rt.EqString(m.Match, c.w1), rt.EqString(m.FieldVal, c.field), m.Fuzziness == fz, okBoost, m.Prefix == 0)
	case vqPhrase:
		m, ok := q.(*MatchPhraseQuery)
		if !ok {
			return false
		}
		return rt.And(rt.EqString(m.MatchPhrase, c.w1+" "+c.w2), rt.EqString(m.FieldVal, c.field), m.BoostVal == nil)
	case vqGT, vqGE:
		m, ok := q.(*NumericRangeQuery)
		if !ok {
			return false
		}
		return rt.And(verifNumIs(m.Min, 5), m.Max == nil, verifBoolIs(m.InclusiveMin, c.kind == vqGE), m.InclusiveMax == nil, rt.EqString(m.FieldVal, c.field))
	case vqLT, vqLE:
		m, ok := q.(*NumericRangeQuery)
		if !ok {
			return false
		}
		return rt.And(verifNumIs(m.Max, 5), m.Min == nil, verifBoolIs(m.InclusiveMax, c.kind == vqLE), m.InclusiveMin == nil, rt.EqString(m.FieldVal, c.field))
	case vqNumEq:
		d, ok := q.(*DisjunctionQuery)
		if !ok || len(d.Disjuncts) != 2 {
			return false
		}
		m, ok1 := d.Disjuncts[0].(*MatchQuery)
		r, ok2 := d.Disjuncts[1].(*NumericRangeQuery)
		if !ok1 || !ok2 {
			return false
		}
		return rt.And(rt.EqString(m.Match, "-5"), rt.EqString(m.FieldVal, c.field), verifNumIs(r.Min, -5), verifNumIs(r.Max, -5),
			verifBoolIs(r.InclusiveMin, true), verifBoolIs(r.InclusiveMax, true), rt.EqString(r.FieldVal, c.field))
	}
	return false
}

func verifSubQueries(q Query) []Query {
	switch t := q.(type) {
	case *ConjunctionQuery:
		return t.Conjuncts
	case *DisjunctionQuery:
		return t.Disjuncts
	}
	return nil
}

// VerifH_C17_QueryStringMeaning: well-formed query strings of one or two clauses built from the
// documented syntax (optional / +required / -excluded, field scoping, terms, phrases, fuzziness,
// boost, numeric comparisons and equality) with symbolic words parse into exactly the boolean query
// the syntax documents: each clause in the must / should / must-not list its prefix selects, in
// order, with the documented type, field, text and options. With prior=1 another string (rejected
// or accepted, from a list of awkward ones) is parsed first on the same pooled lexer
// (bound pool_reuse=1): the meaning must not depend on what was parsed before.
func VerifH_C17_QueryStringMeaning() {
	if rt.Param("prior", 0) == 1 {
		prior := []string{"\"ab", "a\\", "zz", "f:", "a^"}[rt.Choice("prior_input", 5)]
		_, _ = parseQuerySyntax(prior)
	}
	n := rt.Choice("clauses", rt.Param("max_clauses", 2)) + 1
	var cs []*verifClause
	text := ""
	for i := 0; i < n; i++ {
		c := verifMakeClause()
		if i > 0 {
			text += " "
		}
		text += c.text
		cs = append(cs, c)
	}
	q, err := parseQuerySyntax(text)
	rt.Assert(err == nil, "well-formed query string is accepted")
	if err != nil {
		return
	}
	b, ok := q.(*BooleanQuery)
	rt.Assert(ok, "a query string parses into a boolean query")
	if !ok {
		return
	}
	lists := [][]Query{verifSubQueries(b.Should), verifSubQueries(b.Must), verifSubQueries(b.MustNot)}
	pos := []int{0, 0, 0}
	for _, c := range cs {
		l := lists[c.pre]
		rt.Assert(pos[c.pre] < len(l), "each clause appears in the list its prefix selects (optional / required / excluded)")
		if pos[c.pre] < len(l) {
			rt.Assert(verifClauseIs(c, l[pos[c.pre]]), "each clause parses into the query the syntax documents (type, field, text, fuzziness, boost, bounds)")
		}
		pos[c.pre]++
	}
	for k := 0; k < 3; k++ {
		rt.Assert(pos[k] == len(lists[k]), "no clause is invented or duplicated")
	}
	rt.Cover(rt.And(n == 2, cs[0].pre == 1, cs[n-1].pre == 2), "required-and-excluded")
	rt.Cover(rt.And(cs[0].kind == vqPhrase, cs[0].field != ""), "scoped-phrase")
}
