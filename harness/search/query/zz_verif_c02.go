//go:build verif

package query

import (
	"context"
	"time"

	"github.com/blevesearch/bleve/v2/numeric"

	rt "github.com/blevesearch/bleve/v2/internal/verifrt"
	"github.com/blevesearch/bleve/v2/mapping"
	"github.com/blevesearch/bleve/v2/search"
	index "github.com/blevesearch/bleve_index_api"
)

// verifIdx: a stub index of n documents (internal ids 0..n-1, external ids d0..); term tK of field f
// occurs in the documents given by the symbolic bit set post[K].
type verifIdx struct {
	index.IndexReader
	n    int
	post []uint8
}

var verifExtIDs = []string{"d0", "d1", "d2", "d3", "d4"}

type verifTFR struct {
	bits uint8
	n    int
	cur  int
}

func (r *verifTFR) Next(pre *index.TermFieldDoc) (*index.TermFieldDoc, error) {
	for r.cur < r.n {
		k := r.cur
		r.cur++
		if (r.bits>>uint(k))&1 == 1 {
			if pre == nil {
				pre = &index.TermFieldDoc{}
			}
			pre.ID = index.NewIndexInternalID(pre.ID, uint64(k))
			pre.Freq, pre.Norm = 1, 1
			return pre, nil
		}
	}
	return nil, nil
}
func (r *verifTFR) Advance(ID index.IndexInternalID, pre *index.TermFieldDoc) (*index.TermFieldDoc, error) {
	t := int(ID.Value())
	if t > r.cur {
		r.cur = t
	}
	return r.Next(pre)
}
func (r *verifTFR) Count() uint64 { return 1 } // only used for scoring and sizing: kept concrete
func (r *verifTFR) Close() error  { return nil }
func (r *verifTFR) Size() int     { return 8 }

type verifDocIDs struct {
	ids []int
	cur int
}

func (r *verifDocIDs) Next() (index.IndexInternalID, error) {
	if r.cur >= len(r.ids) {
		return nil, nil
	}
	k := r.ids[r.cur]
	r.cur++
	return index.NewIndexInternalID(nil, uint64(k)), nil
}
func (r *verifDocIDs) Advance(ID index.IndexInternalID) (index.IndexInternalID, error) {
	for r.cur < len(r.ids) && uint64(r.ids[r.cur]) < ID.Value() {
		r.cur++
	}
	return r.Next()
}
func (r *verifDocIDs) Size() int    { return 8 }
func (r *verifDocIDs) Close() error { return nil }

func (x *verifIdx) TermFieldReader(ctx context.Context, term []byte, field string, includeFreq, includeNorm, includeTermVectors bool) (index.TermFieldReader, error) {
	var bits uint8
	if field == "f" && len(term) == 2 && term[0] == 't' && int(term[1]-'0') < len(x.post) {
		bits = x.post[int(term[1]-'0')]
	}
	return &verifTFR{bits: bits, n: x.n}, nil
}
func (x *verifIdx) DocIDReaderAll() (index.DocIDReader, error) {
	r := &verifDocIDs{}
	for k := 0; k < x.n; k++ {
		r.ids = append(r.ids, k)
	}
	return r, nil
}
func (x *verifIdx) DocIDReaderOnly(ids []string) (index.DocIDReader, error) {
	r := &verifDocIDs{}
	for k := 0; k < x.n; k++ {
		for _, id := range ids {
			if id == verifExtIDs[k] {
				r.ids = append(r.ids, k)
				break
			}
		}
	}
	return r, nil
}
func (x *verifIdx) DocCount() (uint64, error) { return uint64(x.n), nil }
func (x *verifIdx) ExternalID(id index.IndexInternalID) (string, error) {
	return verifExtIDs[int(id.Value())], nil
}
func (x *verifIdx) InternalID(id string) (index.IndexInternalID, error) {
	for k := 0; k < x.n; k++ {
		if verifExtIDs[k] == id {
			return index.NewIndexInternalID(nil, uint64(k)), nil
		}
	}
	return nil, nil
}
func (x *verifIdx) Close() error { return nil }

// a query tree together with its documented meaning as a bit set over the documents
type verifQ struct {
	q    Query
	bits uint8
}

func (x *verifIdx) all() uint8 { return uint8(1)<<uint(x.n) - 1 }

func (x *verifIdx) term(k int) verifQ {
	q := NewTermQuery(string([]byte{'t', '0' + byte(k)}))
	q.SetField("f")
	return verifQ{q, x.post[k]}
}

// atLeast: documents in at least min of the sets
func (x *verifIdx) atLeast(sets []uint8, min int) uint8 {
	var out uint8
	for d := 0; d < x.n; d++ {
		c := 0
		for _, s := range sets {
			c += rt.IteInt((s>>uint(d))&1 == 1, 1, 0)
		}
		out |= rt.IteU8(c >= min, uint8(1)<<uint(d), 0)
	}
	return out
}

// verifLeafQ: a leaf or small composite over the terms
func (x *verifIdx) leaf(label string) verifQ {
	switch rt.Choice(label, 7) {
	case 0:
		return x.term(0)
	case 1:
		return x.term(1)
	case 2:
		return x.term(2)
	case 3:
		return verifQ{NewMatchAllQuery(), x.all()}
	case 4:
		return verifQ{NewMatchNoneQuery(), 0}
	case 5:
		// doc id query over a fixed subset that includes an unknown id
		return verifQ{NewDocIDQuery([]string{"d2", "d0", "zz"}), uint8(0b101) & x.all()}
	default:
		a, b := x.term(0), x.term(2)
		return verifQ{NewConjunctionQuery([]Query{a.q, b.q}), a.bits & b.bits}
	}
}

// VerifH_C02_QueryTree: the query -> searcher construction of term, doc-id, match-all, match-none,
// conjunction, disjunction-with-minimum and boolean (must / should with minimum / must-not / filter)
// queries over a stub index whose postings are symbolic bit sets: the searcher built by the real
// Searcher() methods, drained with Next, returns exactly the documents of the documented meaning,
// ascending, once each - with and without scoring.
func VerifH_C02_QueryTree() {
	n := rt.Param("docs", 3)
	x := &verifIdx{n: n, post: make([]uint8, 3)}
	for k := range x.post {
		x.post[k] = rt.U8("postings")
		rt.Assume(x.post[k]>>uint(n) == 0)
	}
	var top verifQ
	switch rt.Choice("shape", 4) {
	case 0: // conjunction of two leaves
		a, b := x.leaf("leaf"), x.term(1)
		top = verifQ{NewConjunctionQuery([]Query{a.q, b.q}), a.bits & b.bits}
	case 1: // disjunction with minimum over three leaves
		a, b, c := x.leaf("leaf"), x.term(2), x.term(1)
		min := rt.Choice("min", 4)
		dq := NewDisjunctionQuery([]Query{a.q, b.q, c.q})
		dq.SetMin(float64(min))
		eff := min
		if eff == 0 {
			eff = 1
		}
		top = verifQ{dq, x.atLeast([]uint8{a.bits, b.bits, c.bits}, eff)}
	case 2: // boolean: optional must, should (with minimum), must-not, filter
		bq := NewBooleanQuery(nil, nil, nil)
		bits := x.all()
		any := false
		hasMust := rt.Choice("has_must", 2) == 1
		if hasMust {
			a := x.leaf("leaf")
			bq.AddMust(a.q)
			bits &= a.bits
			any = true
		}
		if rt.Choice("has_should", 2) == 1 {
			a, b := x.term(0), x.term(1)
			bq.AddShould(a.q, b.q)
			min := rt.Choice("min", 3)
			bq.SetMinShould(float64(min))
			if min > 0 || !hasMust {
				eff := min
				if eff == 0 {
					eff = 1
				}
				bits &= x.atLeast([]uint8{a.bits, b.bits}, eff)
			}
			any = true
		}
		if rt.Choice("has_must_not", 2) == 1 {
			a := []verifQ{x.term(2), {NewMatchNoneQuery(), 0}, {NewMatchAllQuery(), x.all()}}[rt.Choice("must_not_leaf", 3)]
			bq.AddMustNot(a.q)
			// (a query with nothing but must-not clauses starts from all documents, also when the
			// clause matches nothing)
			bits &^= a.bits
			any = true
		}
		if rt.Choice("has_filter", 2) == 1 {
			a := []verifQ{x.term(0), {NewDocIDQuery([]string{"d1", "d0"}), uint8(0b011) & x.all()}}[rt.Choice("filter_leaf", 2)]
			bq.AddFilter(a.q)
			bits &= a.bits
			any = true
		}
		if !any {
			bits = 0
		}
		top = verifQ{bq, bits}
	default: // a boolean query as a clause of a conjunction
		a := x.term(0)
		b := x.term(1)
		c := x.leaf("leaf")
		bq := NewBooleanQuery([]Query{a.q}, nil, []Query{b.q})
		top = verifQ{NewConjunctionQuery([]Query{c.q, bq}), c.bits & a.bits &^ b.bits}
	}
	opts := search.SearcherOptions{}
	if rt.Choice("score", 2) == 1 {
		opts.Score = "none"
	}
	s, err := top.q.Searcher(context.Background(), x, mapping.NewIndexMapping(), opts)
	rt.Assert(err == nil, "the searcher is built")
	if err != nil {
		return
	}
	sc := &search.SearchContext{DocumentMatchPool: search.NewDocumentMatchPool(s.DocumentMatchPoolSize()+4, 0)}
	var got uint8
	last := -1
	for i := 0; i <= n; i++ {
		dm, err := s.Next(sc)
		rt.Assert(err == nil, "Next")
		if dm == nil {
			break
		}
		d := int(dm.IndexInternalID.Value())
		rt.Assert(rt.And(d > last, d < n), "results are documents of the index in ascending order, none repeated")
		if d <= last || d >= n {
			return
		}
		last = d
		got |= uint8(1) << uint(d)
		rt.Assert(i < n, "no more results than documents")
	}
	rt.Assert(got == top.bits, "the searcher returns exactly the documents the query means")
	rt.Cover(rt.And(got != 0, got != x.all()), "some-but-not-all")
}

// ---- date range query: bound arithmetic at nanosecond resolution ----

type verifDateDict struct {
	v      int64 // the indexed value (Unix nanoseconds) of one symbolic document
	probed bool
}

func (d *verifDateDict) Contains(term []byte) (bool, error) {
	ok, s := numeric.ValidPrefixCodedTermBytes(term)
	if ok && s%4 == 0 {
		d.probed = rt.Or(d.probed, rt.EqBytes(term, numeric.MustNewPrefixCodedInt64(d.v, uint(s))))
	}
	return false, nil
}
func (d *verifDateDict) BytesRead() uint64 { return 0 }

type verifDateReader struct {
	index.IndexReader
	d *verifDateDict
}

func (r *verifDateReader) FieldDictContains(field string) (index.FieldDictContains, error) {
	return r.d, nil
}
func (r *verifDateReader) DocCount() (uint64, error) { return 1, nil }

// VerifH_C07_DateRange: DateRangeQuery.Searcher with symbolic start and end instants (Unix
// nanoseconds, within one aligned window of 2^window_bits), optional ends and symbolic inclusive
// flags: a document whose date is v nanoseconds is a candidate (one of its indexed terms is probed
// in the dictionary) if and only if v lies in the requested interval - at nanosecond resolution,
// across the epoch, whatever the float carrier the bounds travel in.
func VerifH_C07_DateRange() {
	bits := uint(rt.Param("window_bits", 3))
	sN, eN := rt.I64("start"), rt.I64("end")
	// both bounds in one aligned window, or a window around the epoch (where the sortable encoding
	// changes in every bit)
	w := int64(1) << bits
	rt.Assume(rt.Or(sN>>bits == eN>>bits, rt.And(sN >= -w, sN < 0, eN >= 0, eN < w)))
	// open ends (thorough tier; the searcher-level harness VerifH_C07_RangeBounds covers them too);
	// a query without any end is rejected by Validate
	hasStart, hasEnd := true, true
	if rt.Param("open_ends", 0) == 1 {
		switch rt.Choice("ends", 3) {
		case 1:
			hasStart = false
		case 2:
			hasEnd = false
		}
	}
	var start, end time.Time
	if hasStart {
		start = time.Unix(0, sN)
	}
	if hasEnd {
		end = time.Unix(0, eN)
	}
	var incS, incE *bool
	incStart, incEnd := true, false // documented defaults
	switch rt.Choice("inc_start", 3) {
	case 1:
		t := true
		incS = &t
	case 2:
		f := false
		incS, incStart = &f, false
	}
	switch rt.Choice("inc_end", 3) {
	case 1:
		t := true
		incE, incEnd = &t, true
	case 2:
		f := false
		incE = &f
	}
	// a range whose effective closed form [lo,hi] still contains both -1ns and the epoch makes the term
	// enumerator step across the top 7-bit digit carry (known finding F-C07-1, decided separately by
	// VerifH_C07_EnumerateCarry): such ranges are left out here, all others around the epoch are in
	lo2 := sN + rt.IteI64(incStart, 0, 1)
	hi2 := eN - rt.IteI64(incEnd, 0, 1)
	rt.Assume(rt.Or(sN>>bits == eN>>bits, hi2 < 0, lo2 >= 0))
	q := NewDateRangeInclusiveQuery(start, end, incS, incE)
	q.SetField("f")
	rt.Assume(rt.And(isDatetimeCompatible(q.Start), isDatetimeCompatible(q.End))) // otherwise the query is rejected
	d := &verifDateDict{v: rt.I64("v")}
	if !hasStart || !hasEnd {
		// an open end reaches to the first / last sortable value: keep the document near the given bound
		rt.Assume(d.v>>bits == rt.IteI64(hasStart, sN, eN)>>bits)
	} else {
		rt.Assume(rt.And(d.v >= sN-w, d.v <= eN+w)) // a document near the interval
	}
	_, err := q.Searcher(context.Background(), &verifDateReader{d: d}, mapping.NewIndexMapping(), search.SearcherOptions{})
	rt.Assert(err == nil, "the searcher is built")
	lo := rt.Or(!hasStart, rt.IteBool(incStart, d.v >= sN, d.v > sN))
	hi := rt.Or(!hasEnd, rt.IteBool(incEnd, d.v <= eN, d.v < eN))
	rt.Assert(d.probed == rt.And(lo, hi), "a document is a candidate iff its date lies in the requested interval")
	rt.Cover(rt.And(hasStart, hasEnd, sN < 0, eN >= 0, lo, hi), "interval-across-the-epoch")
}
