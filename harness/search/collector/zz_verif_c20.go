//go:build verif

package collector

import (
	"context"

	rt "github.com/blevesearch/bleve/v2/internal/verifrt"
	"github.com/blevesearch/bleve/v2/search"
	index "github.com/blevesearch/bleve_index_api"
)

// verifNestedSearcher yields, in doc number order, the documents of a forest selected by a symbolic
// presence bit each (8-byte internal ids, as scorch hands them out), with symbolic scores.
type verifNestedSearcher struct {
	present []bool
	scores  []float64
	next    int
}

func (s *verifNestedSearcher) Next(ctx *search.SearchContext) (*search.DocumentMatch, error) {
	for s.next < len(s.present) && !s.present[s.next] {
		s.next++
	}
	if s.next >= len(s.present) {
		return nil, nil
	}
	dm := ctx.DocumentMatchPool.Get()
	dm.IndexInternalID = index.NewIndexInternalID(dm.IndexInternalID, uint64(s.next))
	dm.Score = s.scores[s.next]
	s.next++
	return dm, nil
}
func (s *verifNestedSearcher) Advance(ctx *search.SearchContext, ID index.IndexInternalID) (*search.DocumentMatch, error) {
	for s.next < len(s.present) && uint64(s.next) < ID.Value() {
		s.next++
	}
	return s.Next(ctx)
}
func (s *verifNestedSearcher) Close() error               { return nil }
func (s *verifNestedSearcher) Weight() float64            { return 1 }
func (s *verifNestedSearcher) SetQueryNorm(float64)       {}
func (s *verifNestedSearcher) Count() uint64              { return uint64(len(s.present)) }
func (s *verifNestedSearcher) Min() int                   { return 0 }
func (s *verifNestedSearcher) Size() int                  { return 0 }
func (s *verifNestedSearcher) DocumentMatchPoolSize() int { return 1 }

// verifNestedReader: the forest (parent[k] = doc number of k's parent, -1 for a root).
type verifNestedReader struct {
	index.IndexReader
	parent []int
}

func (r *verifNestedReader) Ancestors(id index.IndexInternalID, prealloc []index.AncestorID) ([]index.AncestorID, error) {
	k := int(id.Value())
	for k >= 0 && k < len(r.parent) {
		prealloc = append(prealloc, index.NewAncestorID(uint64(k)))
		k = r.parent[k]
	}
	return prealloc, nil
}
func (r *verifNestedReader) DocValueReader(fields []string) (index.DocValueReader, error) {
	return &verifDVReader{dv: &verifDocValues{}, wanted: fields}, nil
}
func (r *verifNestedReader) ExternalID(id index.IndexInternalID) (string, error) {
	return verifIDs[int(id.Value())], nil
}

var verifForests = [][]int{
	{-1, 0, 0, -1, 3},    // two parents: two elements, one element
	{-1, -1, 1, 1, -1},   // plain doc, parent with two elements, plain doc
	{-1, 0, 1, -1, 3, 3}, // two nesting levels, then a parent with two elements
}

func verifRootOf(parent []int, k int) int {
	for parent[k] >= 0 {
		k = parent[k]
	}
	return k
}

// VerifH_C20_NestedCollector: the nested branch of TopNCollector.Collect with collectStoreNested
// over three concrete forests; which documents (parents, elements, sub-elements) the searcher yields
// and with which of two scores is a case split per document, as are the page size and skip. Hits are parent documents only, each
// parent with a matching document under it exactly once, Total counts those parents, a hit's score
// is the sum over its matching documents and its Descendants are exactly its matching non-root
// documents; the page is the slice of the parents sorted by that score (descending, ties by arrival).
func VerifH_C20_NestedCollector() {
	parent := verifForests[rt.Choice("forest", len(verifForests))]
	n := len(parent)
	s := &verifNestedSearcher{present: make([]bool, n), scores: make([]float64, n)}
	for k := 0; k < n; k++ {
		// per document: absent, matching with score 1, matching with score 2 (a case split: floating
		// point sums of symbolic scores are beyond the solvers here, 56 unknown answers in a trial)
		st := rt.Choice("doc", 3)
		s.present[k] = st != 0
		s.scores[k] = float64(st)
	}
	size := rt.Choice("size", 3) + 1
	skip := rt.Choice("skip", 2)
	r := &verifNestedReader{parent: parent}
	hc := NewNestedTopNCollector(size, skip, search.SortOrder{&search.SortScore{Desc: true}}, r)
	err := hc.Collect(context.Background(), s, r)
	rt.Assert(err == nil, "Collect returns no error")
	// oracle: per root, matched?, total score, number of matching descendants
	matched := make([]bool, n)
	sum := make([]float64, n)
	desc := make([]int, n)
	for k := 0; k < n; k++ {
		root := verifRootOf(parent, k)
		matched[root] = rt.Or(matched[root], s.present[k])
		sum[root] = sum[root] + rt.IteF64(s.present[k], s.scores[k], 0)
		if k != root {
			desc[root] += rt.IteInt(s.present[k], 1, 0)
		}
	}
	nroots := 0
	for k := 0; k < n; k++ {
		if parent[k] < 0 {
			nroots += rt.IteInt(matched[k], 1, 0)
		}
	}
	rt.Assert(hc.Total() == uint64(nroots), "Total counts the parent documents that have a match under them")
	res := hc.Results()
	want := nroots - skip
	want = rt.IteInt(want < 0, 0, want)
	want = rt.IteInt(want > size, size, want)
	rt.Assert(len(res) == want, "page length")
	seen := make([]bool, n)
	for p, dm := range res {
		h := int(dm.IndexInternalID.Value())
		rt.Assert(rt.And(h >= 0, h < n), "hit is a document of the index")
		if h < 0 || h >= n {
			return
		}
		rt.Assert(parent[h] < 0, "a hit is a parent document, never a nested element")
		rt.Assert(matched[h], "a hit has a matching document under it")
		rt.Assert(!seen[h], "a parent is returned at most once")
		seen[h] = true
		rt.Assert(dm.Score == sum[h], "a parent's score is the sum over its matching documents")
		rt.Assert(len(dm.Descendants) == desc[h], "Descendants lists exactly the matching nested documents of the parent")
		rt.Assert(dm.ID == verifIDs[h], "hit carries the external id of the parent")
		// rank: parents with a larger sum, or an equal sum and a smaller doc number, come first
		rank := 0
		for j := 0; j < n; j++ {
			if parent[j] < 0 && j != h {
				before := rt.And(matched[j], rt.Or(sum[j] > sum[h], rt.And(sum[j] == sum[h], j < h)))
				rank += rt.IteInt(before, 1, 0)
			}
		}
		rt.Assert(rank == skip+p, "hit at page position p is the parent of rank skip+p by total score")
	}
	rt.Cover(rt.And(len(res) >= 2, s.present[1], !s.present[0]), "element-without-its-parent-matching")
	if len(res) >= 1 {
		rt.Cover(len(res[0].Descendants) >= 2, "parent-with-two-matching-elements")
	}
}
