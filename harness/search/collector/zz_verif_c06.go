//go:build verif

package collector

import (
	"math"

	"github.com/blevesearch/bleve/v2/numeric"
	rt "github.com/blevesearch/bleve/v2/internal/verifrt"
	"github.com/blevesearch/bleve/v2/search"
)

// The oracle. For every pair (j,i) `before` says whether match j sorts strictly before match i under
// the documented meaning of the sort (keys in order, descending reverses a key, missing first/last,
// ties broken by natural index order = arrival order). rank(i) = number of matches before i.
// The expected page is the matches with skip <= rank < skip+size, in rank order.
type verifKey struct {
	score   []float64
	has     []bool  // field present
	term    []uint8 // one-byte field value (mode-resolved)
	id      []int   // position of the external id in id order (ids are d0<d1<...)
	kind    int
}

const (
	vkScoreDesc = iota
	vkScoreAsc
	vkFieldAscMissingLast
	vkFieldDescMissingFirst
	vkFieldAscThenScoreDesc
	vkFieldDescMissingLast
	vkIDDesc
	vkKinds
)

// cmpKey3 returns -1/0/1 for key position p of kind k between j and i, without branching.
func (k *verifKey) fieldCmp(j, i int, desc, missingFirst bool) int {
	// missing sorts as the lowest term when (missingFirst != desc), else as the highest
	low := missingFirst != desc
	kj := rt.IteInt(k.has[j], int(k.term[j])+1, rt.IteInt(low, 0, 1000))
	ki := rt.IteInt(k.has[i], int(k.term[i])+1, rt.IteInt(low, 0, 1000))
	c := rt.IteInt(kj < ki, -1, rt.IteInt(kj > ki, 1, 0))
	if desc {
		c = -c
	}
	return c
}

func (k *verifKey) scoreCmp(j, i int, desc bool) int {
	c := rt.IteInt(k.score[j] < k.score[i], -1, rt.IteInt(k.score[j] > k.score[i], 1, 0))
	if desc {
		c = -c
	}
	return c
}

func (k *verifKey) before(j, i int) bool {
	var c int
	switch k.kind {
	case vkScoreDesc:
		c = k.scoreCmp(j, i, true)
	case vkScoreAsc:
		c = k.scoreCmp(j, i, false)
	case vkFieldAscMissingLast:
		c = k.fieldCmp(j, i, false, false)
	case vkFieldDescMissingFirst:
		c = k.fieldCmp(j, i, true, true)
	case vkFieldDescMissingLast:
		c = k.fieldCmp(j, i, true, false)
	case vkFieldAscThenScoreDesc:
		c1 := k.fieldCmp(j, i, false, false)
		c = rt.IteInt(c1 != 0, c1, k.scoreCmp(j, i, true))
	case vkIDDesc:
		c = rt.IteInt(j > i, -1, rt.IteInt(j < i, 1, 0))
	}
	return rt.Or(c < 0, rt.And(c == 0, j < i))
}

func (k *verifKey) rank(i, n int) int {
	r := 0
	for j := 0; j < n; j++ {
		if j != i {
			r += rt.IteInt(k.before(j, i), 1, 0)
		}
	}
	return r
}

func (k *verifKey) sortOrder() search.SortOrder {
	switch k.kind {
	case vkScoreDesc:
		return search.SortOrder{&search.SortScore{Desc: true}}
	case vkScoreAsc:
		return search.SortOrder{&search.SortScore{Desc: false}}
	case vkFieldAscMissingLast:
		return search.SortOrder{&search.SortField{Field: "f", Type: search.SortFieldAsString}}
	case vkFieldDescMissingFirst:
		return search.SortOrder{&search.SortField{Field: "f", Desc: true, Type: search.SortFieldAsString, Missing: search.SortFieldMissingFirst}}
	case vkFieldDescMissingLast:
		return search.SortOrder{&search.SortField{Field: "f", Desc: true, Type: search.SortFieldAsString}}
	case vkFieldAscThenScoreDesc:
		return search.SortOrder{&search.SortField{Field: "f"}, &search.SortScore{Desc: true}}
	case vkIDDesc:
		return search.SortOrder{&search.SortDocID{Desc: true}}
	}
	return nil
}

// verifDocs builds the symbolic documents: a score and zero or one value of field "f" per match,
// plus a value of an unrelated field that must be ignored.
func verifDocs(n int, kind int) (*verifKey, *verifDocValues) {
	k := &verifKey{kind: kind, score: verifScores(n), has: make([]bool, n), term: make([]uint8, n)}
	dv := &verifDocValues{fields: make([][]string, n), terms: make([][][]byte, n)}
	for i := 0; i < n; i++ {
		k.has[i] = rt.Choice("has", 2) == 1
		k.term[i] = rt.U8("term")
		// printable one-byte terms: never a valid prefix coded number, never the sentinel terms
		rt.Assume(rt.And(k.term[i] >= 'a', k.term[i] <= 'e'))
		dv.fields[i] = append(dv.fields[i], "other")
		dv.terms[i] = append(dv.terms[i], []byte{'z'})
		if k.has[i] {
			dv.fields[i] = append(dv.fields[i], "f")
			dv.terms[i] = append(dv.terms[i], []byte{k.term[i]})
		}
	}
	return k, dv
}

// verifCheckPage asserts that results is exactly the page [skip, skip+size) of the oracle order.
func verifCheckPage(k *verifKey, results search.DocumentMatchCollection, n, size, skip int, total uint64, maxScore float64) {
	want := n - skip
	if want < 0 {
		want = 0
	}
	if want > size {
		want = size
	}
	rt.Assert(len(results) == want, "page has min(size, max(0, n-skip)) hits")
	rt.Assert(total == uint64(n), "Total counts every match")
	seen := make([]bool, n)
	for p, dm := range results {
		h := verifHitIndex(dm)
		rt.Assert(rt.And(h >= 0, h < n), "hit is one of the matches")
		if h < 0 || h >= n {
			return
		}
		rt.Assert(!seen[h], "no hit is returned twice")
		seen[h] = true
		rt.Assert(k.rank(h, n) == skip+p, "hit at page position p has rank skip+p in the full sorted order")
		rt.Assert(dm.ID == verifIDs[h], "hit carries the external id of its document")
		rt.Assert(dm.Score == k.score[h], "hit carries its own score")
	}
	mx := 0.0
	for i := 0; i < n; i++ {
		mx = rt.IteF64(k.score[i] > mx, k.score[i], mx)
	}
	rt.Assert(maxScore == mx, "MaxScore is the maximum score of all matches")
}

// VerifH_C06_Page: TopNCollector with the store its constructor picks (slice store at these sizes).
func VerifH_C06_Page() {
	maxN := rt.Param("max_n", 3)
	n := rt.Choice("n", maxN+1)
	kind := rt.Choice("sort", vkKinds)
	size := rt.Choice("size", rt.Param("max_size", 2)+1)
	skip := rt.Choice("skip", rt.Param("max_skip", 2)+1)
	k, dv := verifDocs(n, kind)
	hc := NewTopNCollector(size, skip, k.sortOrder())
	verifCollect(hc, n, k.score, dv)
	verifCheckPage(k, hc.Results(), n, size, skip, hc.Total(), hc.MaxScore())
	rt.Cover(rt.And(n >= 3, len(hc.Results()) >= 2, skip >= 1), "page-after-skip")
	if n >= 2 {
		rt.Cover(rt.And(k.score[0] == k.score[1], kind == vkScoreDesc), "tie")
	}
}

// VerifH_C06_Heap: the same with the heap store (installed by hand at small sizes: the constructor
// switches to it only above 10 retained hits).
func VerifH_C06_Heap() {
	maxN := rt.Param("max_n", 3)
	n := rt.Choice("n", maxN+1)
	kind := rt.Choice("sort", vkKinds)
	size := rt.Choice("size", rt.Param("max_size", 2)+1)
	skip := rt.Choice("skip", rt.Param("max_skip", 2)+1)
	k, dv := verifDocs(n, kind)
	hc := NewTopNCollector(size, skip, k.sortOrder())
	hc.store = newStoreHeap(size+skip+1, hc.cmp)
	verifCollect(hc, n, k.score, dv)
	verifCheckPage(k, hc.Results(), n, size, skip, hc.Total(), hc.MaxScore())
	rt.Cover(rt.And(n >= 3, len(hc.Results()) >= 2, skip >= 1), "page-after-skip")
}

// VerifH_C06_Tiling: two consecutive pages equal one page of double size (no gap, no duplicate).
func VerifH_C06_Tiling() {
	maxN := rt.Param("max_n", 3)
	n := rt.Choice("n", maxN+1)
	kind := rt.Choice("sort", vkKinds)
	size := rt.Choice("size", 2) + 1
	from := rt.Choice("from", 2)
	k, dv := verifDocs(n, kind)
	page := func(sz, sk int) []int {
		hc := NewTopNCollector(sz, sk, k.sortOrder())
		verifCollect(hc, n, k.score, dv)
		var hs []int
		for _, dm := range hc.Results() {
			hs = append(hs, verifHitIndex(dm))
		}
		return hs
	}
	a := page(size, from)
	b := page(size, from+size)
	c := page(2*size, from)
	rt.Assert(len(a)+len(b) == len(c), "two pages hold as many hits as the double page")
	for i, h := range append(append([]int{}, a...), b...) {
		if i < len(c) {
			rt.Assert(h == c[i], "consecutive pages tile the ordering")
		}
	}
	rt.Cover(rt.And(len(a) >= 1, len(b) >= 1), "two-nonempty-pages")
}

// VerifH_C06_SearchAfter: under a total order (score descending then _id) a collector started after
// hit j returns exactly the hits that follow j; with the sort reversed (the kernel of SearchBefore)
// exactly those that precede it.
func VerifH_C06_SearchAfter() {
	maxN := rt.Param("max_n", 3)
	n := rt.Choice("n", maxN) + 1
	reverse := rt.Choice("reverse", 2) == 1
	size := rt.Choice("size", 2) + 1
	j := rt.Choice("after", n)
	k := &verifKey{kind: vkIDDesc, score: verifScores(n), has: make([]bool, n), term: make([]uint8, n)}
	dv := &verifDocValues{fields: make([][]string, n), terms: make([][][]byte, n)}
	so := search.SortOrder{&search.SortDocID{Desc: true}}
	if reverse {
		so.Reverse()
	}
	hc := NewTopNCollectorAfter(size, so, []string{verifIDs[j]})
	verifCollect(hc, n, k.score, dv)
	// ids sort d0<d1<...: descending order is n-1,...,0; the hits after j are j-1, j-2, ...
	res := hc.Results()
	want := j
	if reverse {
		want = n - 1 - j
	}
	if want > size {
		want = size
	}
	rt.Assert(len(res) == want, "number of hits following the search-after key")
	for p, dm := range res {
		h := verifHitIndex(dm)
		if reverse {
			rt.Assert(h == j+1+p, "ascending ids after j")
		} else {
			rt.Assert(h == j-1-p, "descending ids after j")
		}
	}
	rt.Assert(hc.Total() == uint64(n), "Total still counts every match")
	rt.Cover(len(res) >= 2, "two-after")
}

// VerifH_C06_DecodedSortAfter: paging by feeding a hit's DecodedSort back as SearchAfter, the way a
// client does: numeric sort key (symbolic float64 field values, prefix coded as the index stores
// them) then _id. Page 2 requested "after" the last hit of page 1 must be exactly the hits that
// follow it in the full order (DecodeValue and encodeSearchAfter must be mutually inverse on every
// double). strconv's float formatting/parsing is the contract model of the engine.
func VerifH_C06_DecodedSortAfter() {
	maxN := rt.Param("max_n", 3)
	n := rt.Choice("n", maxN) + 1
	desc := rt.Choice("desc", 2) == 1
	size := rt.Choice("size", 2) + 1
	// the sort key is a number (symbolic float64) or a date (symbolic int64 nanoseconds)
	asDate := rt.Choice("date_key", 2) == 1
	vals := make([]float64, n)
	nanos := make([]int64, n)
	dv := &verifDocValues{fields: make([][]string, n), terms: make([][][]byte, n)}
	for i := 0; i < n; i++ {
		dv.fields[i] = []string{"f"}
		if asDate {
			nanos[i] = rt.I64("nanos")
			dv.terms[i] = [][]byte{numeric.MustNewPrefixCodedInt64(nanos[i], 0)}
		} else {
			vals[i] = rt.F64("val")
			rt.Assume(rt.And(vals[i] == vals[i], rt.Or(vals[i] != 0, math.Float64bits(vals[i]) == 0)))
			dv.terms[i] = [][]byte{numeric.MustNewPrefixCodedInt64(numeric.Float64ToInt64(vals[i]), 0)}
		}
	}
	scores := make([]float64, n)
	typ := search.SortFieldAsNumber
	if asDate {
		typ = search.SortFieldAsDate
	}
	mk := func() search.SortOrder {
		return search.SortOrder{&search.SortField{Field: "f", Type: typ, Desc: desc}, &search.SortDocID{}}
	}
	before := func(j, i int) bool {
		lt := vals[j] < vals[i]
		gt := vals[j] > vals[i]
		if asDate {
			lt, gt = nanos[j] < nanos[i], nanos[j] > nanos[i]
		}
		if desc {
			lt, gt = gt, lt
		}
		return rt.Or(lt, rt.And(!lt, !gt, j < i))
	}
	rank := func(i int) int {
		r := 0
		for j := 0; j < n; j++ {
			if j != i {
				r += rt.IteInt(before(j, i), 1, 0)
			}
		}
		return r
	}
	hc1 := NewTopNCollector(size, 0, mk())
	verifCollect(hc1, n, scores, dv)
	p1 := hc1.Results()
	if len(p1) == 0 {
		return
	}
	last := p1[len(p1)-1]
	rt.Assert(len(last.DecodedSort) == 2, "a hit carries one decoded sort value per sort key")
	after := append([]string{}, last.DecodedSort...)
	hc2 := NewTopNCollectorAfter(size, mk(), after)
	verifCollect(hc2, n, scores, dv)
	p2 := hc2.Results()
	want := n - len(p1)
	if want > size {
		want = size
	}
	rt.Assert(len(p2) == want, "the page after a hit holds the hits that follow it (none lost, none repeated)")
	for p, dm := range p2 {
		h := verifHitIndex(dm)
		rt.Assert(rt.And(h >= 0, h < n), "hit is one of the matches")
		if h < 0 || h >= n {
			return
		}
		rt.Assert(rank(h) == len(p1)+p, "hit p of the page after hit j has rank j+1+p in the full order")
	}
	if n >= 3 {
		rt.Cover(rt.And(len(p2) >= 1, !asDate, vals[0] != vals[1]), "second-page-nonempty")
		rt.Cover(rt.And(len(p2) >= 1, asDate, nanos[0] != nanos[1]), "second-page-nonempty-date")
	}
}
