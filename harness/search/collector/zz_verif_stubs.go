//go:build verif

package collector

import (
	"context"

	rt "github.com/blevesearch/bleve/v2/internal/verifrt"
	"github.com/blevesearch/bleve/v2/search"
	index "github.com/blevesearch/bleve_index_api"
)

// verifSearcher yields n matches in index order (internal ids 0..n-1) with the given scores.
type verifSearcher struct {
	n      int
	next   int
	scores []float64
}

func (s *verifSearcher) Next(ctx *search.SearchContext) (*search.DocumentMatch, error) {
	if s.next >= s.n {
		return nil, nil
	}
	dm := ctx.DocumentMatchPool.Get()
	dm.IndexInternalID = append(dm.IndexInternalID[:0], byte(s.next))
	dm.Score = s.scores[s.next]
	s.next++
	return dm, nil
}

func (s *verifSearcher) Advance(ctx *search.SearchContext, ID index.IndexInternalID) (*search.DocumentMatch, error) {
	for s.next < s.n && s.next < int(ID[0]) {
		s.next++
	}
	return s.Next(ctx)
}
func (s *verifSearcher) Close() error               { return nil }
func (s *verifSearcher) Weight() float64            { return 1 }
func (s *verifSearcher) SetQueryNorm(float64)       {}
func (s *verifSearcher) Count() uint64              { return uint64(s.n) }
func (s *verifSearcher) Min() int                   { return 0 }
func (s *verifSearcher) Size() int                  { return 0 }
func (s *verifSearcher) DocumentMatchPoolSize() int { return 1 }

// verifDocValues: per document a list of (field, term) pairs.
type verifDocValues struct {
	fields [][]string
	terms  [][][]byte
}

type verifDVReader struct {
	dv     *verifDocValues
	wanted []string
}

func (r *verifDVReader) VisitDocValues(id index.IndexInternalID, visitor index.DocValueVisitor) error {
	d := int(id[0])
	for i, f := range r.dv.fields[d] {
		for _, w := range r.wanted {
			if w == f {
				visitor(f, r.dv.terms[d][i])
			}
		}
	}
	return nil
}
func (r *verifDVReader) BytesRead() uint64 { return 0 }

// verifReader implements the three IndexReader methods the collector uses.
type verifReader struct {
	index.IndexReader
	dv  *verifDocValues
	ids []string
}

func (r *verifReader) DocValueReader(fields []string) (index.DocValueReader, error) {
	return &verifDVReader{dv: r.dv, wanted: fields}, nil
}
func (r *verifReader) ExternalID(id index.IndexInternalID) (string, error) {
	return r.ids[int(id[0])], nil
}
func (r *verifReader) InternalID(id string) (index.IndexInternalID, error) {
	for i, s := range r.ids {
		if s == id {
			return index.IndexInternalID{byte(i)}, nil
		}
	}
	return nil, nil
}

var verifIDs = []string{"d0", "d1", "d2", "d3", "d4", "d5", "d6", "d7"}

func verifScores(n int) []float64 {
	sc := make([]float64, n)
	for i := range sc {
		sc[i] = rt.F64("score")
		// scores are finite and non-negative, as scorers produce them
		rt.Assume(rt.And(sc[i] >= 0, sc[i] <= 1e9))
	}
	return sc
}

func verifCollect(hc *TopNCollector, n int, scores []float64, dv *verifDocValues) {
	s := &verifSearcher{n: n, scores: scores}
	r := &verifReader{dv: dv, ids: verifIDs}
	err := hc.Collect(context.Background(), s, r)
	rt.Assert(err == nil, "Collect returns no error")
}

func verifHitIndex(dm *search.DocumentMatch) int { return int(dm.HitNumber) - 1 }
