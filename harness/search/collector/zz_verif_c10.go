//go:build verif

package collector

import (
	rt "github.com/blevesearch/bleve/v2/internal/verifrt"
	"github.com/blevesearch/bleve/v2/numeric"
	"github.com/blevesearch/bleve/v2/search"
	"github.com/blevesearch/bleve/v2/search/facet"
)

// verifFacetDocs: n matches, each with 0..2 values of the facet field drawn from {'a','b','c'}
// (symbolic), plus one value of another field that the facet must ignore.
type verifFacetDocs struct {
	hasG  []bool
	n     int
	nvals []int
	vals  [][]uint8
	score []float64
	dv    *verifDocValues
}

func verifMakeFacetDocs(n int, field string) *verifFacetDocs {
	d := &verifFacetDocs{n: n, nvals: make([]int, n), vals: make([][]uint8, n), score: verifScores(n)}
	d.dv = &verifDocValues{fields: make([][]string, n), terms: make([][][]byte, n)}
	maxVals := rt.Param("max_vals", 2)
	for i := 0; i < n; i++ {
		d.nvals[i] = rt.Choice("nvals", maxVals+1)
		d.dv.fields[i] = append(d.dv.fields[i], "other")
		d.dv.terms[i] = append(d.dv.terms[i], []byte{'a'})
		// a second facet field "g" with at most one value
		d.hasG = append(d.hasG, rt.Param("with_g", 0) == 1 && rt.Choice("has_g", 2) == 1)
		if d.hasG[i] {
			d.dv.fields[i] = append(d.dv.fields[i], "g")
			d.dv.terms[i] = append(d.dv.terms[i], []byte{'x'})
		}
		for j := 0; j < d.nvals[i]; j++ {
			v := rt.U8("val")
			rt.Assume(rt.And(v >= 'a', v <= 'c'))
			d.vals[i] = append(d.vals[i], v)
			d.dv.fields[i] = append(d.dv.fields[i], field)
			d.dv.terms[i] = append(d.dv.terms[i], []byte{v})
		}
	}
	return d
}

func (d *verifFacetDocs) count(t uint8) int {
	c := 0
	for i := 0; i < d.n; i++ {
		for _, v := range d.vals[i] {
			c += rt.IteInt(v == t, 1, 0)
		}
	}
	return c
}

func (d *verifFacetDocs) totalVals() int {
	c := 0
	for i := 0; i < d.n; i++ {
		c += d.nvals[i]
	}
	return c
}

func (d *verifFacetDocs) missing() int {
	c := 0
	for i := 0; i < d.n; i++ {
		if d.nvals[i] == 0 {
			c++
		}
	}
	return c
}

// verifRunTermsFacet runs the collector with one terms facet on field "f" and returns its result.
func verifRunTermsFacet(d *verifFacetDocs, size, skip int, sortByField bool, facetSize int) *search.FacetResult {
	so := search.SortOrder{&search.SortScore{Desc: true}}
	if sortByField {
		so = search.SortOrder{&search.SortField{Field: "f"}}
	}
	hc := NewTopNCollector(size, skip, so)
	fb := search.NewFacetsBuilder(nil)
	fb.Add("byf", facet.NewTermsFacetBuilder("f", facetSize))
	fb.Add("byg", facet.NewTermsFacetBuilder("g", 5))
	fb.Add("byf2", facet.NewTermsFacetBuilder("f", 5)) // a second facet over the first one's field
	hc.SetFacetsBuilder(fb)
	verifCollect(hc, d.n, d.score, d.dv)
	rt.Assert(hc.Total() == uint64(d.n), "Total counts every match")
	fr := hc.FacetResults()
	// the second facet, on another field, registered after the first
	ng := 0
	for i := 0; i < d.n; i++ {
		if d.hasG[i] {
			ng++
		}
	}
	rg, okg := fr["byg"]
	rt.Assert(okg, "second facet result present")
	if okg {
		rt.Assert(rt.And(rg.Total == ng, rg.Missing == d.n-ng, rg.Other == 0), "second facet: Total/Missing/Other over all matches")
		gt := rg.Terms.Terms()
		if ng > 0 {
			rt.Assert(len(gt) == 1, "second facet lists its single term")
			if len(gt) == 1 {
				rt.Assert(rt.And(gt[0].Term == "x", gt[0].Count == ng), "second facet counts all matches")
			}
		} else {
			rt.Assert(len(gt) == 0, "second facet empty when no match has the field")
		}
	}
	res, ok := fr["byf"]
	rt.Assert(ok, "facet result present")
	res2, ok2 := fr["byf2"]
	rt.Assert(ok2, "result of the second facet over the same field present")
	if ok && ok2 {
		rt.Assert(rt.And(res2.Total == res.Total, res2.Missing == res.Missing), "two facets over one field both describe all matches")
	}
	return res
}

func verifTermByte(s string) uint8 {
	rt.Assert(len(s) == 1, "facet term is one of the indexed one-byte values")
	if len(s) != 1 {
		return 0
	}
	return s[0]
}

// VerifH_C10_Terms: terms facet counts describe all matches, whatever the page and sort.
func VerifH_C10_Terms() {
	n := rt.Choice("n", rt.Param("max_n", 3)+1)
	d := verifMakeFacetDocs(n, "f")
	facetSize := rt.Choice("facet_size", 3) + 1
	size := rt.Choice("size", 3)
	skip := rt.Choice("skip", 2)
	sortByField := rt.Choice("sort_by_field", 2) == 1
	res := verifRunTermsFacet(d, size, skip, sortByField, facetSize)
	ca, cb, cc := d.count('a'), d.count('b'), d.count('c')
	cnt := func(t uint8) int { return rt.IteInt(t == 'a', ca, rt.IteInt(t == 'b', cb, cc)) }
	rt.Assert(res.Total == d.totalVals(), "facet Total is the number of values of all matches")
	rt.Assert(res.Missing == d.missing(), "facet Missing is the number of matches without the field")
	terms := res.Terms.Terms()
	rt.Assert(len(terms) <= facetSize, "no more than size terms")
	listed := 0
	var prevT uint8
	prevC := 0
	seenA, seenB, seenC := false, false, false
	for i, tf := range terms {
		t := verifTermByte(tf.Term)
		rt.Assert(rt.And(t >= 'a', t <= 'c'), "term is from the corpus")
		rt.Assert(tf.Count == cnt(t), "count of a listed term is its number of occurrences in all matches")
		rt.Assert(tf.Count > 0, "listed terms occur")
		if i > 0 {
			rt.Assert(rt.Or(prevC > tf.Count, rt.And(prevC == tf.Count, prevT < t)), "terms ordered by count descending then term ascending")
		}
		prevT, prevC = t, tf.Count
		listed += tf.Count
		seenA = rt.Or(seenA, t == 'a')
		seenB = rt.Or(seenB, t == 'b')
		seenC = rt.Or(seenC, t == 'c')
	}
	rt.Assert(res.Other == d.totalVals()-listed, "Other accounts for every value not listed")
	// a term that is not listed is absent from the corpus or ranks after the last listed one
	check := func(seen bool, t uint8, c int) {
		full := len(terms) == facetSize
		after := rt.Or(prevC > c, rt.And(prevC == c, prevT < t))
		rt.Assert(rt.Or(seen, c == 0, rt.And(full, after)), "no term that belongs in the top is left out")
	}
	check(seenA, 'a', ca)
	check(seenB, 'b', cb)
	check(seenC, 'c', cc)
	rt.Cover(rt.And(len(terms) == 2, res.Other > 0), "trimmed-with-other")
	rt.Cover(rt.And(n >= 2, res.Missing >= 1, len(terms) >= 1), "missing-and-terms")
}

// VerifH_C10_TwoFacets: two terms facets on different fields, the sort possibly on the first facet's
// field: each facet describes all matches (the per-facet assertions live in verifRunTermsFacet).
func VerifH_C10_TwoFacets() {
	n := rt.Choice("n", rt.Param("max_n", 2)+1)
	d := verifMakeFacetDocs(n, "f")
	res := verifRunTermsFacet(d, rt.Choice("size", 2), 0, rt.Choice("sort_by_field", 2) == 1, 3)
	rt.Assert(res.Total == d.totalVals(), "first facet Total")
	if n == 2 {
		rt.Cover(rt.And(d.hasG[0], !d.hasG[1]), "second-field-on-some-docs")
	}
}

// VerifH_C10_TermsPageIndependent: the same matches under two different page/sort settings give
// identical facet results.
func VerifH_C10_TermsPageIndependent() {
	n := rt.Choice("n", rt.Param("max_n", 3)+1)
	d := verifMakeFacetDocs(n, "f")
	facetSize := rt.Choice("facet_size", 2) + 1
	r1 := verifRunTermsFacet(d, 10, 0, false, facetSize)
	r2 := verifRunTermsFacet(d, rt.Choice("size", 2), rt.Choice("skip", 2), rt.Choice("sort_by_field", 2) == 1, facetSize)
	rt.Assert(rt.And(r1.Total == r2.Total, r1.Missing == r2.Missing, r1.Other == r2.Other), "Total/Missing/Other do not depend on the page")
	t1, t2 := r1.Terms.Terms(), r2.Terms.Terms()
	rt.Assert(len(t1) == len(t2), "same number of terms")
	if len(t1) == len(t2) {
		for i := range t1 {
			rt.Assert(rt.And(rt.EqString(t1[i].Term, t2[i].Term), t1[i].Count == t2[i].Count), "same terms and counts")
		}
	}
	rt.Cover(len(t1) >= 2, "two-terms")
}

// VerifH_C10_Numeric: numeric range facet: each range counts the values v of all matches with
// min <= v < max (ranges may overlap: a value counts in every range containing it); terms indexed
// at a coarser precision are ignored; Missing counts matches without the field.
func VerifH_C10_Numeric() {
	n := rt.Choice("n", rt.Param("max_n", 2)+1)
	score := verifScores(n)
	dv := &verifDocValues{fields: make([][]string, n), terms: make([][][]byte, n)}
	has := make([]bool, n)
	val := make([]float64, n)
	for i := 0; i < n; i++ {
		has[i] = rt.Choice("has", 2) == 1
		val[i] = rt.F64("val")
		rt.Assume(val[i] == val[i])
		if has[i] {
			i64 := numeric.Float64ToInt64(val[i])
			dv.fields[i] = append(dv.fields[i], "num", "num")
			dv.terms[i] = append(dv.terms[i], numeric.MustNewPrefixCodedInt64(i64, 0), numeric.MustNewPrefixCodedInt64(i64, 4))
		}
	}
	min1, max1, min2 := rt.F64("min1"), rt.F64("max1"), rt.F64("min2")
	rt.Assume(rt.And(min1 == min1, max1 == max1, min2 == min2))
	nfb := facet.NewNumericFacetBuilder("num", 10)
	nfb.AddRange("r1", &min1, &max1)
	nfb.AddRange("r2", &min2, nil)
	hc := NewTopNCollector(rt.Choice("size", 2), rt.Choice("skip", 2), search.SortOrder{&search.SortScore{Desc: true}})
	fb := search.NewFacetsBuilder(nil)
	fb.Add("bynum", nfb)
	hc.SetFacetsBuilder(fb)
	verifCollect(hc, n, score, dv)
	res := hc.FacetResults()["bynum"]
	c1, c2, miss := 0, 0, 0
	for i := 0; i < n; i++ {
		if has[i] {
			c1 += rt.IteInt(rt.And(val[i] >= min1, val[i] < max1), 1, 0)
			c2 += rt.IteInt(val[i] >= min2, 1, 0)
		} else {
			miss++
		}
	}
	rt.Assert(res.Missing == miss, "Missing counts matches without the field")
	rt.Assert(res.Total == c1+c2, "Total is the number of (value, range) hits")
	g1, g2 := 0, 0
	for _, r := range res.NumericRanges {
		if r.Name == "r1" {
			g1 = r.Count
		} else {
			g2 = r.Count
		}
	}
	rt.Assert(g1 == c1, "range [min,max) counts the values of all matches inside it")
	rt.Assert(g2 == c2, "open-ended range counts the values of all matches at or above min")
	rt.Assert(res.Other == 0, "nothing trimmed")
	rt.Cover(rt.And(c1 >= 1, c2 >= 1, n >= 2), "overlapping-ranges-hit")
}
