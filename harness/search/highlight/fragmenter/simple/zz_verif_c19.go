//go:build verif

package simple

import (
	rt "github.com/blevesearch/bleve/v2/internal/verifrt"
	"github.com/blevesearch/bleve/v2/search/highlight"
	"github.com/blevesearch/bleve/v2/search/highlight/format/html"
)

func verifLocations(orig []byte, inside bool) highlight.TermLocations {
	n := rt.Choice("nloc", 3)
	var tls highlight.TermLocations
	prev := 0
	for i := 0; i < n; i++ {
		s, e := rt.Int("start"), rt.Int("end")
		// locations are produced by analysis: ordered by start, 0 <= start <= end; the end may lie
		// beyond the stored text when a char filter changed the length before tokenising
		lim := len(orig) + 2
		if inside {
			lim = len(orig)
		}
		rt.Assume(rt.And(0 <= s, s <= e, e <= lim, prev <= s))
		prev = s
		tls = append(tls, &highlight.TermLocation{Term: "t", Pos: i + 1, Start: s, End: e})
	}
	return tls
}

// VerifH_C19_Fragment: the simple fragmenter on any stored value up to max_len bytes (invalid UTF-8
// included), up to two term locations whose offsets may overshoot the text, any fragment size 1..4:
// no panic, and every fragment satisfies 0 <= Start <= End <= len(orig).
func VerifH_C19_Fragment() {
	maxLen := rt.Param("max_len", 3)
	n := rt.Choice("len", maxLen+1)
	orig := rt.Bytes("orig", n)
	tls := verifLocations(orig, false)
	size := rt.Choice("fragsize", 4) + 1
	frags := NewFragmenter(size).Fragment(orig, tls)
	for _, f := range frags {
		rt.Assert(rt.And(0 <= f.Start, f.Start <= f.End, f.End <= len(orig)), "fragment inside the stored value")
	}
	rt.Cover(rt.And(len(frags) >= 1, len(tls) == 2), "fragment-with-two-locations")
	rt.Cover(rt.And(len(frags) == 0, len(tls) >= 1), "location-skipped")
}

// VerifH_C19_FragmentFormat: fragments formatted by the html formatter with the same locations that
// produced them: no panic (the formatter slices the text at curr/loc.Start/loc.End/f.End), and the
// output is at least as long as the text shown. The stored value is one of a few concrete texts
// (ASCII, a two-byte rune inside, text needing escaping) because html escaping of symbolic text only
// multiplies paths; offsets, number of locations and fragment size are symbolic.
func VerifH_C19_FragmentFormat() {
	texts := []string{"abcd", "a\u00e9b", "a<b&", ""}
	orig := []byte(texts[rt.Choice("text", len(texts))])
	tls := verifLocations(orig, rt.Choice("inside", 2) == 1)
	size := rt.Choice("fragsize", 5) + 1
	frags := NewFragmenter(size).Fragment(orig, tls)
	ff := html.NewFragmentFormatter("<mark>", "</mark>")
	for _, f := range frags {
		out := ff.Format(f, tls)
		rt.Assert(len(out) >= f.End-f.Start, "formatted fragment is at least as long as the text it shows")
	}
	rt.Cover(rt.And(len(frags) >= 1, len(tls) == 2), "formatted-two-locations")
}

// VerifH_C19_FormatMarks: what the formatter marks. A fragment [fs,fe) of value 0 of an array field
// ("abcdef") and up to three term locations in start order, each with symbolic offsets inside its own
// value and belonging to value 0 or value 1 of the field: with the marks removed the output is
// exactly the fragment's text, and every marked span is the text of a location of the fragment's own
// value that lies inside the fragment - offsets of matches in other values are never applied to it.
func VerifH_C19_FormatMarks() {
	orig := []byte("abcdef")
	fs, fe := rt.Int("frag_start"), rt.Int("frag_end")
	rt.Assume(rt.And(0 <= fs, fs <= fe, fe <= len(orig)))
	f := &highlight.Fragment{Orig: orig, ArrayPositions: []uint64{0}, Start: fs, End: fe}
	n := rt.Choice("nloc", rt.Param("max_locs", 2)+1)
	var tls highlight.TermLocations
	prev := 0
	for i := 0; i < n; i++ {
		s, e := rt.Int("start"), rt.Int("end")
		rt.Assume(rt.And(0 <= s, s < e, e <= len(orig), prev <= s))
		prev = s
		ap := uint64(rt.Choice("value", 2))
		tls = append(tls, &highlight.TermLocation{Term: "t", Pos: i + 1, Start: s, End: e, ArrayPositions: []uint64{ap}})
	}
	out := html.NewFragmentFormatter("<", ">").Format(f, tls)
	// parse: text outside and inside marks
	plain := ""
	inMark := false
	markStart := 0
	pos := fs // offset in orig of the next plain byte
	for i := 0; i < len(out); i++ {
		c := out[i]
		switch {
		case c == '<':
			rt.Assert(!inMark, "marks do not nest")
			inMark = true
			markStart = pos
		case c == '>':
			rt.Assert(inMark, "every closing mark has an opening one")
			inMark = false
			ok := false
			for _, tl := range tls {
				if tl.ArrayPositions[0] == 0 && tl.Start == markStart && tl.End == pos {
					ok = true
				}
			}
			rt.Assert(ok, "every marked span is the text at a location of a term matched in this value of the field")
		default:
			plain += string([]byte{c})
			pos++
		}
	}
	rt.Assert(!inMark, "marks are closed")
	rt.Assert(plain == string(orig[fs:fe]), "with the marks removed the fragment is a contiguous piece of the stored value")
	if n >= 2 {
		rt.Cover(rt.And(tls[0].ArrayPositions[0] == 1, tls[1].ArrayPositions[0] == 0, tls[1].Start >= fs, tls[1].End <= fe), "match-in-another-value-of-the-field")
	}
}
