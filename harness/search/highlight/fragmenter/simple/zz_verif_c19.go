//go:build verif

package simple

import (
	rt "github.com/blevesearch/bleve/v2/internal/verifrt"
	"github.com/blevesearch/bleve/v2/search/highlight"
	"github.com/blevesearch/bleve/v2/search/highlight/format/html"
)

func verifLocations(orig []byte, inside bool) highlight.TermLocations {
	n := rt.Choice("nloc", 3)
	var tls highlight.TermLocations
	prev := 0
	for i := 0; i < n; i++ {
		s, e := rt.Int("start"), rt.Int("end")
		// locations are produced by analysis: ordered by start, 0 <= start <= end; the end may lie
		// beyond the stored text when a char filter changed the length before tokenising
		lim := len(orig) + 2
		if inside {
			lim = len(orig)
		}
		rt.Assume(rt.And(0 <= s, s <= e, e <= lim, prev <= s))
		prev = s
		tls = append(tls, &highlight.TermLocation{Term: "t", Pos: i + 1, Start: s, End: e})
	}
	return tls
}

// VerifH_C19_Fragment: the simple fragmenter on any stored value up to max_len bytes (invalid UTF-8
// included), up to two term locations whose offsets may overshoot the text, any fragment size 1..4:
// no panic, and every fragment satisfies 0 <= Start <= End <= len(orig).
func VerifH_C19_Fragment() {
	maxLen := rt.Param("max_len", 3)
	n := rt.Choice("len", maxLen+1)
	orig := rt.Bytes("orig", n)
	tls := verifLocations(orig, false)
	size := rt.Choice("fragsize", 4) + 1
	frags := NewFragmenter(size).Fragment(orig, tls)
	for _, f := range frags {
		rt.Assert(rt.And(0 <= f.Start, f.Start <= f.End, f.End <= len(orig)), "fragment inside the stored value")
	}
	rt.Cover(rt.And(len(frags) >= 1, len(tls) == 2), "fragment-with-two-locations")
	rt.Cover(rt.And(len(frags) == 0, len(tls) >= 1), "location-skipped")
}

// VerifH_C19_FragmentFormat: fragments formatted by the html formatter with the same locations that
// produced them: no panic (the formatter slices the text at curr/loc.Start/loc.End/f.End), and the
// output is at least as long as the text shown. The stored value is one of a few concrete texts
// (ASCII, a two-byte rune inside, text needing escaping) because html escaping of symbolic text only
// multiplies paths; offsets, number of locations and fragment size are symbolic.
func VerifH_C19_FragmentFormat() {
	texts := []string{"abcd", "a\u00e9b", "a<b&", ""}
	orig := []byte(texts[rt.Choice("text", len(texts))])
	tls := verifLocations(orig, rt.Choice("inside", 2) == 1)
	size := rt.Choice("fragsize", 5) + 1
	frags := NewFragmenter(size).Fragment(orig, tls)
	ff := html.NewFragmentFormatter("<mark>", "</mark>")
	for _, f := range frags {
		out := ff.Format(f, tls)
		rt.Assert(len(out) >= f.End-f.Start, "formatted fragment is at least as long as the text it shows")
	}
	rt.Cover(rt.And(len(frags) >= 1, len(tls) == 2), "formatted-two-locations")
}
