//go:build verif

package searcher

import (
	"context"

	rt "github.com/blevesearch/bleve/v2/internal/verifrt"
	"github.com/blevesearch/bleve/v2/search"
	index "github.com/blevesearch/bleve_index_api"
)

// verifLeaf is a leaf searcher over a symbolic, strictly ascending list of one-byte internal ids.
// It obeys the Searcher contract by construction (ascending ids, Advance lands on the first id >= target
// that has not been returned yet).
type verifLeaf struct {
	ids []byte
	pos int
	min int
}

func verifMakeLeaf(maxIDs int) *verifLeaf {
	n := rt.Choice("leaf_len", maxIDs+1)
	l := &verifLeaf{ids: rt.Bytes("id", n)}
	for i := 0; i+1 < n; i++ {
		rt.Assume(l.ids[i] < l.ids[i+1])
	}
	return l
}

func (l *verifLeaf) member(x byte) bool {
	m := false
	for _, id := range l.ids {
		m = rt.Or(m, id == x)
	}
	return m
}

func (l *verifLeaf) Next(ctx *search.SearchContext) (*search.DocumentMatch, error) {
	if l.pos >= len(l.ids) {
		return nil, nil
	}
	dm := ctx.DocumentMatchPool.Get()
	dm.IndexInternalID = append(dm.IndexInternalID[:0], l.ids[l.pos])
	dm.Score = 1
	l.pos++
	return dm, nil
}

func (l *verifLeaf) Advance(ctx *search.SearchContext, ID index.IndexInternalID) (*search.DocumentMatch, error) {
	for l.pos < len(l.ids) && index.IndexInternalID(l.ids[l.pos:l.pos+1]).Compare(ID) < 0 {
		l.pos++
	}
	return l.Next(ctx)
}
func (l *verifLeaf) Close() error               { return nil }
func (l *verifLeaf) Weight() float64            { return 1 }
func (l *verifLeaf) SetQueryNorm(float64)       {}
func (l *verifLeaf) Count() uint64              { return uint64(len(l.ids)) }
func (l *verifLeaf) Min() int                   { return l.min }
func (l *verifLeaf) Size() int                  { return 0 }
func (l *verifLeaf) DocumentMatchPoolSize() int { return 1 }

type verifNoReader struct{ index.IndexReader }

const verifNone = 1000

// verifDrive runs a program of ncalls Next/Advance calls (symbolic forward targets) against s and
// asserts on every call that the result is the first id >= the lower bound that satisfies isMatch,
// i.e. exactly the documented set, in strictly ascending order, nothing skipped or repeated.
func verifDrive(s search.Searcher, cands []byte, isMatch func(x byte) bool, ncalls int) {
	ctx := &search.SearchContext{DocumentMatchPool: search.NewDocumentMatchPool(s.DocumentMatchPoolSize()+ncalls+4, 0)}
	last := -1
	returned := 0
	for c := 0; c < ncalls; c++ {
		lower := last + 1
		var dm *search.DocumentMatch
		var err error
		if rt.Choice("op", 2) == 1 {
			t := rt.U8("target")
			rt.Assume(int(t) > last) // forward targets only (the Searcher contract)
			lower = int(t)
			dm, err = s.Advance(ctx, index.IndexInternalID{t})
			rt.Cover(rt.And(dm != nil, c > 0), "advance-after-first-call-hit")
		} else {
			dm, err = s.Next(ctx)
		}
		rt.Assert(err == nil, "no error")
		exp := verifNone
		for _, x := range cands {
			ok := rt.And(isMatch(x), int(x) >= lower, int(x) < exp)
			exp = rt.IteInt(ok, int(x), exp)
		}
		if dm == nil {
			rt.Assert(exp == verifNone, "a match at or after the target is never skipped")
			last = 255
		} else {
			rt.Assert(len(dm.IndexInternalID) == 1, "id shape")
			got := int(dm.IndexInternalID[0])
			rt.Assert(got > last, "ids strictly ascending")
			rt.Assert(got >= lower, "result is at or after the target")
			rt.Assert(got == exp, "result is the first match at or after the target")
			last = got
			returned++
		}
	}
	rt.Cover(returned >= 2, "two-results")
}

func verifCands(ls ...*verifLeaf) []byte {
	var c []byte
	for _, l := range ls {
		if l != nil {
			c = append(c, l.ids...)
		}
	}
	return c
}

func verifOptions() search.SearcherOptions {
	switch rt.Choice("options", 3) {
	case 1:
		return search.SearcherOptions{Explain: true}
	case 2:
		return search.SearcherOptions{IncludeTermVectors: true}
	}
	return search.SearcherOptions{}
}

// VerifH_C02_Conjunction: conjunction of 2..3 leaves returns exactly the intersection.
func VerifH_C02_Conjunction() {
	maxIDs := rt.Param("max_ids", 2)
	nch := rt.Choice("children", rt.Param("max_children", 2)-1) + 2
	var ls []*verifLeaf
	var ss []search.Searcher
	for i := 0; i < nch; i++ {
		l := verifMakeLeaf(maxIDs)
		ls = append(ls, l)
		ss = append(ss, l)
	}
	s, err := NewConjunctionSearcher(context.Background(), verifNoReader{}, ss, verifOptions())
	rt.Assert(err == nil, "constructor")
	verifDrive(s, verifCands(ls...), func(x byte) bool {
		m := true
		for _, l := range ls {
			m = rt.And(m, l.member(x))
		}
		return m
	}, rt.Param("calls", 3))
}

func verifDisjunction(heap bool) {
	maxIDs := rt.Param("max_ids", 2)
	nch := rt.Choice("children", rt.Param("max_children", 2)-1) + 2
	min := rt.Choice("min", 3) // 0, 1, 2
	var ls []*verifLeaf
	var ss []search.Searcher
	for i := 0; i < nch; i++ {
		l := verifMakeLeaf(maxIDs)
		ls = append(ls, l)
		ss = append(ss, l)
	}
	var s search.Searcher
	var err error
	if heap {
		s, err = newDisjunctionHeapSearcher(context.Background(), verifNoReader{}, ss, float64(min), verifOptions(), true)
	} else {
		s, err = newDisjunctionSliceSearcher(context.Background(), verifNoReader{}, ss, float64(min), verifOptions(), true)
	}
	rt.Assert(err == nil, "constructor")
	verifDrive(s, verifCands(ls...), func(x byte) bool {
		n := 0
		for _, l := range ls {
			n += rt.IteInt(l.member(x), 1, 0)
		}
		return rt.And(n >= 1, n >= min)
	}, rt.Param("calls", 3))
}

// VerifH_C02_DisjunctionSlice / Heap: disjunction with minimum: ids matched by at least max(1,min) children.
func VerifH_C02_DisjunctionSlice() { verifDisjunction(false) }
func VerifH_C02_DisjunctionHeap()  { verifDisjunction(true) }

// VerifH_C02_Boolean: must / should(min) / must-not over leaves, all non-empty clause combinations
// with a must or a should clause.
func VerifH_C02_Boolean() {
	maxIDs := rt.Param("max_ids", 2)
	shape := rt.Choice("shape", 6)
	var m, sh, n *verifLeaf
	switch shape {
	case 0: // must, must-not
		m, n = verifMakeLeaf(maxIDs), verifMakeLeaf(maxIDs)
	case 1: // must, should(min 0)
		m, sh = verifMakeLeaf(maxIDs), verifMakeLeaf(maxIDs)
	case 2: // must, should(min 1)
		m, sh = verifMakeLeaf(maxIDs), verifMakeLeaf(maxIDs)
		sh.min = 1
	case 3: // should, must-not
		sh, n = verifMakeLeaf(maxIDs), verifMakeLeaf(maxIDs)
		sh.min = 1
	case 4: // must, should(min 1), must-not
		m, sh, n = verifMakeLeaf(maxIDs), verifMakeLeaf(maxIDs), verifMakeLeaf(maxIDs)
		sh.min = 1
	case 5: // must, should(min 0), must-not
		m, sh, n = verifMakeLeaf(maxIDs), verifMakeLeaf(maxIDs), verifMakeLeaf(maxIDs)
	}
	var ms, ss, ns search.Searcher
	if m != nil {
		ms = m
	}
	if sh != nil {
		ss = sh
	}
	if n != nil {
		ns = n
	}
	s, err := NewBooleanSearcher(context.Background(), verifNoReader{}, ms, ss, ns, verifOptions())
	rt.Assert(err == nil, "constructor")
	verifDrive(s, verifCands(m, sh, n), func(x byte) bool {
		ok := true
		if m != nil {
			ok = m.member(x)
			if sh != nil && sh.min > 0 {
				ok = rt.And(ok, sh.member(x))
			}
		} else {
			ok = sh.member(x)
		}
		if n != nil {
			ok = rt.And(ok, !n.member(x))
		}
		return ok
	}, rt.Param("calls", 3))
}

// VerifH_C02_Nested: a boolean (must, must-not) nested as a clause of a conjunction with another leaf,
// and a disjunction nested in a conjunction: the meaning composes.
func VerifH_C02_Nested() {
	maxIDs := rt.Param("max_ids", 2)
	a, b, c := verifMakeLeaf(maxIDs), verifMakeLeaf(maxIDs), verifMakeLeaf(maxIDs)
	var inner search.Searcher
	var err error
	shape := rt.Choice("shape", 3)
	switch shape {
	case 0:
		inner, err = NewBooleanSearcher(context.Background(), verifNoReader{}, b, nil, c, search.SearcherOptions{})
	case 1:
		inner, err = newDisjunctionSliceSearcher(context.Background(), verifNoReader{}, []search.Searcher{b, c}, 0, search.SearcherOptions{}, true)
	case 2:
		inner, err = newDisjunctionHeapSearcher(context.Background(), verifNoReader{}, []search.Searcher{b, c}, 0, search.SearcherOptions{}, true)
	}
	rt.Assert(err == nil, "inner constructor")
	s, err := NewConjunctionSearcher(context.Background(), verifNoReader{}, []search.Searcher{a, inner}, search.SearcherOptions{})
	rt.Assert(err == nil, "outer constructor")
	verifDrive(s, verifCands(a, b, c), func(x byte) bool {
		if shape == 0 {
			return rt.And(a.member(x), b.member(x), !c.member(x))
		}
		return rt.And(a.member(x), rt.Or(b.member(x), c.member(x)))
	}, rt.Param("calls", 3))
}
