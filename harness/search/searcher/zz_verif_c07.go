//go:build verif

package searcher

import (
	"context"
	"math"

	rt "github.com/blevesearch/bleve/v2/internal/verifrt"
	"github.com/blevesearch/bleve/v2/numeric"
	"github.com/blevesearch/bleve/v2/search"
	index "github.com/blevesearch/bleve_index_api"
)

// verifMatches: does the document value v (as indexed at the range's own shift) fall in term range r?
// Uses the real prefix coder and the real range bytes.
func verifMatches(r *termRange, v int64) bool {
	ok, shift := numeric.ValidPrefixCodedTermBytes(r.startTerm)
	rt.Assert(ok, "range start is a valid term")
	ok2, shift2 := numeric.ValidPrefixCodedTermBytes(r.endTerm)
	rt.Assert(rt.And(ok2, shift2 == shift), "range end is a valid term of the same shift")
	rt.Assert(shift%4 == 0, "range shift is an indexed precision step")
	term := numeric.MustNewPrefixCodedInt64(v, uint(shift))
	return rt.And(!rt.LessBytes(term, r.startTerm), !rt.LessBytes(r.endTerm, term))
}

func verifCount(rs termRanges, v int64) int {
	n := 0
	for _, r := range rs {
		n += rt.IteInt(verifMatches(r, v), 1, 0)
	}
	return n
}

// VerifH_C07_SplitStep: one iteration of splitInt64Range's precision loop from an arbitrary state
// satisfying the loop invariant (low `shift` bits of both bounds clear, min <= max):
// a value v lies in the residual interval iff it is matched by exactly one range emitted in this
// iteration or lies in the next residual interval (never both, never two ranges); on exit the final
// range matches exactly the residual interval. By induction over the <= 16 iterations:
// for all min <= max and v, v is matched by exactly one emitted range iff min <= v <= max.
func VerifH_C07_SplitStep() {
	k := rt.Choice("level", 16)
	shift := uint(k) * 4
	minB, maxB, v := rt.I64("min"), rt.I64("max"), rt.I64("v")
	low := int64(1)<<shift - 1
	rt.Assume(rt.And(minB <= maxB, minB&low == 0, maxB&low == 0))
	rv, min2, max2, shift2, exited := verifSplitStep(minB, maxB, 4, shift, 1)
	inR := rt.And(minB <= v, v <= maxB|low)
	cnt := verifCount(rv, v)
	rt.Assert(cnt <= 1, "ranges of one level are disjoint")
	if exited {
		rt.Assert(inR == (cnt == 1), "final range matches exactly the residual interval")
		rt.Cover(cnt == 1, "exit-matched")
	} else {
		rt.Assert(shift2 == shift+4, "next level")
		rt.Assert(shift2 <= 60, "loop ends at the lowest precision")
		low2 := int64(1)<<shift2 - 1
		rt.Assert(rt.And(min2 <= max2, min2&low2 == 0, max2&low2 == 0), "loop invariant re-established")
		inR2 := rt.And(min2 <= v, v <= max2|low2)
		rt.Assert(!rt.And(cnt == 1, inR2), "emitted ranges are disjoint from the next residual interval")
		rt.Assert(inR == rt.Or(cnt == 1, inR2), "residual interval == emitted ranges + next residual interval")
		rt.Cover(cnt == 1, "step-matched")
		rt.Cover(inR2, "step-residual")
	}
}

// VerifH_C07_SplitEntry: entry conditions of splitInt64Range: min > max yields no ranges.
func VerifH_C07_SplitEntry() {
	minB, maxB := rt.I64("min"), rt.I64("max")
	rt.Assume(minB > maxB)
	rs := splitInt64Range(minB, maxB, 4)
	rt.Assert(len(rs) == 0, "empty interval yields no ranges")
}

// VerifH_C07_SplitWhole: the real, whole splitInt64Range on bounded families of intervals:
// v is matched by exactly one range iff min <= v <= max.
func VerifH_C07_SplitWhole() {
	fam := rt.Choice("family", 3)
	bits := uint(rt.Param("window_bits", 6))
	var minB, maxB int64
	switch fam {
	case 0: // both bounds inside one aligned window of 2^bits values
		base := rt.I64("base")
		w := int64(1)<<bits - 1
		lo, hi := rt.I64("lo"), rt.I64("hi")
		rt.Assume(rt.And(base&w == 0, lo >= 0, lo <= w, hi >= 0, hi <= w))
		minB, maxB = base|lo, base|hi
	case 1: // extremes: [MinInt64+a, MaxInt64-b]
		a, b := rt.I64("a"), rt.I64("b")
		rt.Assume(rt.And(a >= 0, a < 16, b >= 0, b < 16))
		minB, maxB = -9223372036854775808+a, 9223372036854775807-b
	case 2: // around zero (sign crossing)
		a, b := rt.I64("a"), rt.I64("b")
		rt.Assume(rt.And(a >= 0, a < 20, b >= 0, b < 20))
		minB, maxB = -a, b
	}
	v := rt.I64("v")
	rs := splitInt64Range(minB, maxB, 4)
	cnt := verifCount(rs, v)
	in := rt.And(minB <= v, v <= maxB)
	rt.Assert(cnt <= 1, "no value matched twice")
	rt.Assert(in == (cnt == 1), "matched iff inside [min,max]")
	rt.Cover(rt.And(in, len(rs) >= 3), "inside-multi-range")
	rt.Cover(rt.And(!in, minB <= maxB), "outside")
}

// verifEnumerate drives termRange.Enumerate over a range as produced by newRange covering <= width
// consecutive values of one precision level. twoDigitCarry selects the family of ranges whose first
// and last term differ above the two lowest 7-bit digits (see known finding F-C07-1) or its complement.
func verifEnumerate(twoDigitCarry bool) {
	nlev := rt.Param("enum_levels", 16)
	k := rt.Choice("level", nlev)
	shift := uint(k) * 4
	width := rt.Param("enum_width", 32)
	budget := rt.Param("enum_budget", 32+128+8)
	lo := rt.I64("lo")
	c := rt.I64("count")
	low := int64(1)<<shift - 1
	rt.Assume(rt.And(lo&low == 0, c >= 0, c < int64(width)))
	hi := lo + c<<shift
	rt.Assume(hi >= lo) // no wrap
	sLo := (uint64(lo) ^ 0x8000000000000000) >> shift
	sHi := (uint64(hi) ^ 0x8000000000000000) >> shift
	rt.Assume((sLo>>14 != sHi>>14) == twoDigitCarry)
	tr := newRange(lo, hi, shift)
	v := rt.I64("v")
	want := numeric.MustNewPrefixCodedInt64(v, shift)
	probes := 0
	seen := false
	out := tr.Enumerate(func(term []byte) bool {
		probes++
		rt.Assert(probes <= budget, "enumeration stays within the probe budget")
		seen = rt.Or(seen, rt.EqBytes(term, want))
		return true
	})
	in := rt.And(lo <= v, v <= hi|low)
	rt.Assert(rt.Implies(in, seen), "every valid term of the range is offered to the filter")
	rt.Assert(len(out) == probes, "accepted terms are returned")
	rt.Cover(rt.And(in, c > 3), "inside-wide")
	rt.Cover(rt.And(in, sLo>>7 != sHi>>7), "one-digit-carry")
}

// VerifH_C07_Enumerate: Enumerate offers every valid term of the range to the filter and stays within
// a probe budget linear in the range width (32 values + one 7-bit digit of slack), for every range
// that does not straddle a carry out of the second 7-bit digit.
func VerifH_C07_Enumerate() { verifEnumerate(false) }

// VerifH_C07_EnumerateCarry: the complementary family (ranges straddling a carry of two or more
// 7-bit digits).
func VerifH_C07_EnumerateCarry() { verifEnumerate(true) }

// ---- NewNumericRangeSearcher: the bound arithmetic, observed through the dictionary probes ----

type verifContainsDict struct {
	v      int64 // the encoded value of one (symbolic) document
	probed bool  // some probed term is one of the document's indexed terms
	probes int
}

func (d *verifContainsDict) Contains(term []byte) (bool, error) {
	d.probes++
	ok, s := numeric.ValidPrefixCodedTermBytes(term)
	if ok && s%4 == 0 {
		d.probed = rt.Or(d.probed, rt.EqBytes(term, numeric.MustNewPrefixCodedInt64(d.v, uint(s))))
	}
	return false, nil
}
func (d *verifContainsDict) BytesRead() uint64 { return 0 }

type verifContainsReader struct {
	index.IndexReader
	d *verifContainsDict
}

func (r *verifContainsReader) FieldDictContains(field string) (index.FieldDictContains, error) {
	return r.d, nil
}

// VerifH_C07_RangeBounds: NewNumericRangeSearcher with symbolic min/max (including the infinities and
// open ends) and symbolic inclusive flags, for bounds whose encodings lie in one aligned window of
// 2^window_bits sortable values: a document with value x (any double but NaN and -0) has one of its
// indexed terms probed if and only if x lies in the requested real interval.
func VerifH_C07_RangeBounds() {
	bits := uint(rt.Param("window_bits", 4))
	var minP, maxP *float64
	var incMinP, incMaxP *bool
	minV, maxV := rt.F64("min"), rt.F64("max")
	rt.Assume(rt.And(minV == minV, maxV == maxV, math.Float64bits(minV) != 1<<63, math.Float64bits(maxV) != 1<<63))
	if rt.Choice("min_nil", 2) == 1 {
		minV = math.Inf(-1)
	} else {
		minP = &minV
	}
	if rt.Choice("max_nil", 2) == 1 {
		maxV = math.Inf(1)
	} else {
		maxP = &maxV
	}
	incMin, incMax := true, false // documented defaults
	switch rt.Choice("inc_min", 3) {
	case 1:
		t := true
		incMinP = &t
	case 2:
		f := false
		incMinP, incMin = &f, false
	}
	switch rt.Choice("inc_max", 3) {
	case 1:
		t := true
		incMaxP, incMax = &t, true
	case 2:
		f := false
		incMaxP = &f
	}
	fmin, fmax := numeric.Float64ToInt64(minV), numeric.Float64ToInt64(maxV)
	rt.Assume(fmin>>bits == fmax>>bits)
	d := &verifContainsDict{v: rt.I64("v")}
	x := numeric.Int64ToFloat64(d.v)
	rt.Assume(rt.And(x == x, math.Float64bits(x) != 1<<63))
	r := &verifContainsReader{d: d}
	s, err := NewNumericRangeSearcher(context.Background(), r, minP, maxP, incMinP, incMaxP, "f", 1.0, search.SearcherOptions{})
	rt.Assert(err == nil, "searcher construction succeeds")
	_ = s
	lo := rt.IteBool(incMin, x >= minV, x > minV)
	hi := rt.IteBool(incMax, x <= maxV, x < maxV)
	rt.Assert(d.probed == rt.And(lo, hi), "a document is a candidate iff its value lies in the requested interval")
	rt.Cover(rt.And(lo, hi, d.probes >= 2), "inside")
	rt.Cover(rt.And(minV == math.Inf(1), !incMin), "exclusive-plus-inf")
	rt.Cover(rt.And(maxV == math.Inf(-1), !incMax), "exclusive-minus-inf")
}
