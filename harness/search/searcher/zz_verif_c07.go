//go:build verif

package searcher

import (
	rt "github.com/blevesearch/bleve/v2/internal/verifrt"
	"github.com/blevesearch/bleve/v2/numeric"
)

// verifMatches: does the document value v (as indexed at the range's own shift) fall in term range r?
// Uses the real prefix coder and the real range bytes.
func verifMatches(r *termRange, v int64) bool {
	ok, shift := numeric.ValidPrefixCodedTermBytes(r.startTerm)
	rt.Assert(ok, "range start is a valid term")
	ok2, shift2 := numeric.ValidPrefixCodedTermBytes(r.endTerm)
	rt.Assert(rt.And(ok2, shift2 == shift), "range end is a valid term of the same shift")
	rt.Assert(shift%4 == 0, "range shift is an indexed precision step")
	term := numeric.MustNewPrefixCodedInt64(v, uint(shift))
	return rt.And(!rt.LessBytes(term, r.startTerm), !rt.LessBytes(r.endTerm, term))
}

func verifCount(rs termRanges, v int64) int {
	n := 0
	for _, r := range rs {
		n += rt.IteInt(verifMatches(r, v), 1, 0)
	}
	return n
}

// VerifH_C07_SplitStep: one iteration of splitInt64Range's precision loop from an arbitrary state
// satisfying the loop invariant (low `shift` bits of both bounds clear, min <= max):
// a value v lies in the residual interval iff it is matched by exactly one range emitted in this
// iteration or lies in the next residual interval (never both, never two ranges); on exit the final
// range matches exactly the residual interval. By induction over the <= 16 iterations:
// for all min <= max and v, v is matched by exactly one emitted range iff min <= v <= max.
func VerifH_C07_SplitStep() {
	k := rt.Choice("level", 16)
	shift := uint(k) * 4
	minB, maxB, v := rt.I64("min"), rt.I64("max"), rt.I64("v")
	low := int64(1)<<shift - 1
	rt.Assume(rt.And(minB <= maxB, minB&low == 0, maxB&low == 0))
	rv, min2, max2, shift2, exited := verifSplitStep(minB, maxB, 4, shift, 1)
	inR := rt.And(minB <= v, v <= maxB|low)
	cnt := verifCount(rv, v)
	rt.Assert(cnt <= 1, "ranges of one level are disjoint")
	if exited {
		rt.Assert(inR == (cnt == 1), "final range matches exactly the residual interval")
		rt.Cover(cnt == 1, "exit-matched")
	} else {
		rt.Assert(shift2 == shift+4, "next level")
		rt.Assert(shift2 <= 60, "loop ends at the lowest precision")
		low2 := int64(1)<<shift2 - 1
		rt.Assert(rt.And(min2 <= max2, min2&low2 == 0, max2&low2 == 0), "loop invariant re-established")
		inR2 := rt.And(min2 <= v, v <= max2|low2)
		rt.Assert(!rt.And(cnt == 1, inR2), "emitted ranges are disjoint from the next residual interval")
		rt.Assert(inR == rt.Or(cnt == 1, inR2), "residual interval == emitted ranges + next residual interval")
		rt.Cover(cnt == 1, "step-matched")
		rt.Cover(inR2, "step-residual")
	}
}

// VerifH_C07_SplitEntry: entry conditions of splitInt64Range: min > max yields no ranges.
func VerifH_C07_SplitEntry() {
	minB, maxB := rt.I64("min"), rt.I64("max")
	rt.Assume(minB > maxB)
	rs := splitInt64Range(minB, maxB, 4)
	rt.Assert(len(rs) == 0, "empty interval yields no ranges")
}

// VerifH_C07_SplitWhole: the real, whole splitInt64Range on bounded families of intervals:
// v is matched by exactly one range iff min <= v <= max.
func VerifH_C07_SplitWhole() {
	fam := rt.Choice("family", 3)
	bits := uint(rt.Param("window_bits", 6))
	var minB, maxB int64
	switch fam {
	case 0: // both bounds inside one aligned window of 2^bits values
		base := rt.I64("base")
		w := int64(1)<<bits - 1
		lo, hi := rt.I64("lo"), rt.I64("hi")
		rt.Assume(rt.And(base&w == 0, lo >= 0, lo <= w, hi >= 0, hi <= w))
		minB, maxB = base|lo, base|hi
	case 1: // extremes: [MinInt64+a, MaxInt64-b]
		a, b := rt.I64("a"), rt.I64("b")
		rt.Assume(rt.And(a >= 0, a < 16, b >= 0, b < 16))
		minB, maxB = -9223372036854775808+a, 9223372036854775807-b
	case 2: // around zero (sign crossing)
		a, b := rt.I64("a"), rt.I64("b")
		rt.Assume(rt.And(a >= 0, a < 20, b >= 0, b < 20))
		minB, maxB = -a, b
	}
	v := rt.I64("v")
	rs := splitInt64Range(minB, maxB, 4)
	cnt := verifCount(rs, v)
	in := rt.And(minB <= v, v <= maxB)
	rt.Assert(cnt <= 1, "no value matched twice")
	rt.Assert(in == (cnt == 1), "matched iff inside [min,max]")
	rt.Cover(rt.And(in, len(rs) >= 3), "inside-multi-range")
	rt.Cover(rt.And(!in, minB <= maxB), "outside")
}

// verifEnumerate drives termRange.Enumerate over a range as produced by newRange covering <= width
// consecutive values of one precision level. twoDigitCarry selects the family of ranges whose first
// and last term differ above the two lowest 7-bit digits (see known finding F-C07-1) or its complement.
func verifEnumerate(twoDigitCarry bool) {
	nlev := rt.Param("enum_levels", 16)
	k := rt.Choice("level", nlev)
	shift := uint(k) * 4
	width := rt.Param("enum_width", 32)
	budget := rt.Param("enum_budget", 32+128+8)
	lo := rt.I64("lo")
	c := rt.I64("count")
	low := int64(1)<<shift - 1
	rt.Assume(rt.And(lo&low == 0, c >= 0, c < int64(width)))
	hi := lo + c<<shift
	rt.Assume(hi >= lo) // no wrap
	sLo := (uint64(lo) ^ 0x8000000000000000) >> shift
	sHi := (uint64(hi) ^ 0x8000000000000000) >> shift
	rt.Assume((sLo>>14 != sHi>>14) == twoDigitCarry)
	tr := newRange(lo, hi, shift)
	v := rt.I64("v")
	want := numeric.MustNewPrefixCodedInt64(v, shift)
	probes := 0
	seen := false
	out := tr.Enumerate(func(term []byte) bool {
		probes++
		rt.Assert(probes <= budget, "enumeration stays within the probe budget")
		seen = rt.Or(seen, rt.EqBytes(term, want))
		return true
	})
	in := rt.And(lo <= v, v <= hi|low)
	rt.Assert(rt.Implies(in, seen), "every valid term of the range is offered to the filter")
	rt.Assert(len(out) == probes, "accepted terms are returned")
	rt.Cover(rt.And(in, c > 3), "inside-wide")
	rt.Cover(rt.And(in, sLo>>7 != sHi>>7), "one-digit-carry")
}

// VerifH_C07_Enumerate: Enumerate offers every valid term of the range to the filter and stays within
// a probe budget linear in the range width (32 values + one 7-bit digit of slack), for every range
// that does not straddle a carry out of the second 7-bit digit.
func VerifH_C07_Enumerate() { verifEnumerate(false) }

// VerifH_C07_EnumerateCarry: the complementary family (ranges straddling a carry of two or more
// 7-bit digits).
func VerifH_C07_EnumerateCarry() { verifEnumerate(true) }
