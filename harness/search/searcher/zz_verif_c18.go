//go:build verif

package searcher

import (
	"context"

	"github.com/blevesearch/bleve/v2/geo"
	rt "github.com/blevesearch/bleve/v2/internal/verifrt"
	"github.com/blevesearch/bleve/v2/numeric"
	"github.com/blevesearch/bleve/v2/search"
	index "github.com/blevesearch/bleve_index_api"
)

// verifDV is a doc value reader over an explicit list of terms of one document.
type verifDV struct{ terms [][]byte }

func (d *verifDV) VisitDocValues(id index.IndexInternalID, v index.DocValueVisitor) error {
	for _, t := range d.terms {
		v("loc", t)
	}
	return nil
}
func (d *verifDV) BytesRead() uint64 { return 0 }

type verifPt struct{ lon, lat float64 }

// the candidate points of the document: one inside every query shape below, two outside
// (the fourth lies just beyond the date line: inside only the circle around (179.9, 10))
var verifPts = []verifPt{{10.5, 10.5}, {-170, -80}, {50, 50}, {-179.95, 10}}

// verifDocTerms builds the doc values of one document holding n points (each an arbitrary choice of
// the candidates) in arbitrary order; every term's first byte (the shift marker) is an arbitrary byte,
// so terms of coarser precision and malformed terms are interleaved with the full-precision ones.
// Returns the terms and, per term, whether it is a full-precision term and which candidate it encodes.
func verifDocTerms(n int) (terms [][]byte, full []bool, which []int) {
	for i := 0; i < n; i++ {
		w := rt.Choice("point", len(verifPts))
		h := geo.MortonHash(verifPts[w].lon, verifPts[w].lat)
		t := []byte(numeric.MustNewPrefixCodedInt64(int64(h), 0))
		sb := rt.U8("shiftbyte")
		t[0] = sb
		terms = append(terms, t)
		full = append(full, sb == numeric.ShiftStartInt64)
		which = append(which, w)
	}
	return
}

// VerifH_C18_Filters: the per-document filters of box, distance and polygon queries accept a document
// if and only if one of its indexed full-precision points lies in the shape -- for every number, order
// and mixture of points and coarser-precision terms in the document's values.
func VerifH_C18_Filters() {
	n := rt.Param("terms", 2)
	kind := rt.Choice("shape", 4)
	terms, full, which := verifDocTerms(n)
	dv := &verifDV{terms: terms}
	d := &search.DocumentMatch{IndexInternalID: index.IndexInternalID("d")}
	ctx := context.Background()
	var f FilterFunc
	inside := make([]bool, len(verifPts))
	switch kind {
	case 0:
		f = buildRectFilter(ctx, dv, 10, 10, 11, 11)
		for i, p := range verifPts {
			// the filter sees the decoded point
			h := geo.MortonHash(p.lon, p.lat)
			inside[i] = geo.BoundingBoxContains(geo.MortonUnhashLon(h), geo.MortonUnhashLat(h), 10, 10, 11, 11)
		}
	case 1:
		f = buildDistFilter(ctx, dv, 10.5, 10.5, 1000)
		inside[0] = true
	case 2:
		f = buildPolygonFilter(ctx, dv, "loc", []geo.Point{{Lon: 10, Lat: 10}, {Lon: 11, Lat: 10}, {Lon: 11, Lat: 11}, {Lon: 10, Lat: 11}, {Lon: 10, Lat: 10}})
		inside[0] = true
	case 3:
		// a circle of 50 km around a point 0.1 degrees west of the date line: reaches across it
		f = buildDistFilter(ctx, dv, 179.9, 10, 50000)
		inside[3] = true
	}
	if kind == 3 {
		rt.Assert(!inside[0] && !inside[1] && !inside[2] && inside[3], "harness: candidate points are placed as intended")
	} else {
		rt.Assert(inside[0] && !inside[1] && !inside[2] && !inside[3], "harness: candidate points are placed as intended")
	}
	got := f(nil, d)
	want := false
	sawTwoFull := false
	nfull := 0
	for i := range terms {
		if full[i] {
			nfull++
			if inside[which[i]] {
				want = true
			}
		}
	}
	sawTwoFull = nfull >= 2
	rt.Assert(got == want, "a document is accepted iff one of its points lies in the shape")
	rt.Cover(sawTwoFull && want && which[0] != 0, "inside-point-after-outside-point")
	rt.Cover(nfull == 0, "no-full-precision-term")
	rt.Cover(kind == 3 && want, "point-across-the-date-line-inside-the-circle")
}

type verifBox struct{ minLon, minLat, maxLon, maxLat float64 }

var verifBoxes = []verifBox{
	{10.0, 10.0, 10.05, 10.03},
	{-0.02, -0.02, 0.03, 0.02},      // straddles the first split of both axes
	{179.95, 89.96, 180, 90},        // the +180/+90 corner
	{-180, -90, -179.97, -89.98},    // the -180/-90 corner
	{44.99, -45.01, 45.02, -44.99},  // straddles a level-3 split
	{-135.3, 22.4, -135.1, 22.6},    // larger box: inner cells at shift 36 are taken whole
	{100, -30, 100.7, -29.5},        // larger still: shift 45 cells may qualify
}

// verifEdgeBoxes: boxes whose corners sit exactly on the last / first coordinate of a cell (at the
// detail level and at a coarse level), where an off-by-one in a cell's corner loses the edge points;
// followed by the fixed boxes above.
func verifEdgeBoxes() []verifBox {
	dl := func(x uint64) float64 { return geo.MortonUnhashLon(numeric.Interleave(x, 0)) }
	dt := func(y uint64) float64 { return geo.MortonUnhashLat(numeric.Interleave(0, y)) }
	var out []verifBox
	for _, bits := range []uint{18, 27} {
		lastX := (uint64(3)<<bits | (uint64(1)<<bits - 1)) + uint64(1)<<31
		lastY := (uint64(5)<<bits | (uint64(1)<<bits - 1)) + uint64(1)<<30
		// min corner = max corner of a cell
		out = append(out, verifBox{dl(lastX), dt(lastY), dl(lastX) + 0.01, dt(lastY) + 0.01})
		// max corner = min corner of the next cell
		out = append(out, verifBox{dl(lastX+1) - 0.01, dt(lastY+1) - 0.01, dl(lastX + 1), dt(lastY + 1)})
	}
	return append(out, verifBoxes...)
}

// verifAxisRange returns the smallest and largest 32-bit cell coordinate whose decoded degree value
// lies in [lo,hi] (decode = the real MortonUnhashLon/Lat), by bisection with the real decoder; the
// decoder is monotone (IEEE division/addition by positive constants round monotonically), and the
// result is checked against its neighbours.
func verifAxisRange(decode func(uint64) float64, lo, hi float64) (uint64, uint64, bool) {
	const top = uint64(0xffffffff)
	// first x with decode(x) >= lo
	a, b := uint64(0), top+1
	for a < b {
		m := (a + b) / 2
		if decode(m) >= lo {
			b = m
		} else {
			a = m + 1
		}
	}
	first := a
	// last x with decode(x) <= hi
	a, b = uint64(0), top+1
	for a < b {
		m := (a + b) / 2
		if decode(m) <= hi {
			a = m + 1
		} else {
			b = m
		}
	}
	if a == 0 || first > top {
		return 0, 0, false
	}
	last := a - 1
	return first, last, first <= last
}

// VerifH_C18_BoxTerms: the candidate terms of a bounding box query, for every 64-bit point hash at
// once: (a) a point whose decoded position is inside the box is covered by one of the terms (so the
// cell descent loses no cell at any level), (b) with boundary checking on, a term taken without the
// per-document check covers only points inside the box, (c) no term covers a point whose cell
// coordinates are more than one detail-level cell away from the box.
func VerifH_C18_BoxTerms() {
	nb := rt.Param("boxes", 4)
	bx := verifEdgeBoxes()[rt.Choice("box", nb)]
	check := rt.Choice("check_boundaries", 2) == 1
	onB, notOnB, err := ComputeGeoRange(context.Background(), 0, GeoBitsShift1Minus1,
		bx.minLon, bx.minLat, bx.maxLon, bx.maxLat, check, nil, "loc")
	rt.Assert(err == nil, "ComputeGeoRange succeeds")
	decLon := func(x uint64) float64 { return geo.MortonUnhashLon(numeric.Interleave(x, 0)) }
	decLat := func(y uint64) float64 { return geo.MortonUnhashLat(numeric.Interleave(0, y)) }
	xlo, xhi, ok1 := verifAxisRange(decLon, bx.minLon, bx.maxLon)
	ylo, yhi, ok2 := verifAxisRange(decLat, bx.minLat, bx.maxLat)
	rt.Assert(ok1 && ok2, "harness: the box contains cell coordinates")
	rt.Assert(decLon(xlo) >= bx.minLon && (xlo == 0 || decLon(xlo-1) < bx.minLon) && decLon(xhi) <= bx.maxLon && (xhi == 0xffffffff || decLon(xhi+1) > bx.maxLon), "harness: lon thresholds")
	rt.Assert(decLat(ylo) >= bx.minLat && (ylo == 0 || decLat(ylo-1) < bx.minLat) && decLat(yhi) <= bx.maxLat && (yhi == 0xffffffff || decLat(yhi+1) > bx.maxLat), "harness: lat thresholds")

	p := rt.U64("pointhash")
	x := numeric.Deinterleave(p)
	y := numeric.Deinterleave(p >> 1)
	inside := rt.And(x >= xlo, x <= xhi, y >= ylo, y <= yhi)

	covered := func(terms [][]byte) bool {
		hit := false
		for _, t := range terms {
			pc := numeric.PrefixCoded(t)
			shift, err := pc.Shift()
			v, err2 := pc.Int64()
			rt.Assert(err == nil && err2 == nil, "emitted terms are well-formed prefix-coded values")
			rt.Assert(shift%9 == 0 && shift >= 36 && shift <= 63, "emitted terms use a precision that documents index")
			hit = rt.Or(hit, (p>>shift) == (uint64(v)>>shift))
		}
		return hit
	}
	hitOn, hitNot := covered(onB), covered(notOnB)
	rt.Assert(rt.Implies(inside, rt.Or(hitOn, hitNot)), "every point inside the box is covered by a candidate term")
	if check {
		rt.Assert(rt.Implies(hitNot, inside), "a term taken without the per-document check covers only points inside the box")
	}
	// a detail-level cell spans 2^(36/2) = 2^18 coordinates per axis
	const cell = uint64(1) << 18
	near := rt.And(x+cell >= xlo, x <= xhi+cell, y+cell >= ylo, y <= yhi+cell)
	rt.Assert(rt.Implies(rt.Or(hitOn, hitNot), near), "candidate terms stay within one detail cell of the box")
	rt.Cover(rt.And(hitOn, inside), "inside-point-in-boundary-cell")
	rt.Cover(rt.And(hitOn, !inside), "outside-point-in-boundary-cell")
	rt.Cover(len(notOnB) > 0 && check, "whole-cells-taken")
}

// verifProbeDict records every term the geo searcher asks the dictionary about (and answers "not
// indexed", so that no postings are needed).
type verifProbeDict struct{ terms [][]byte }

func (d *verifProbeDict) Contains(term []byte) (bool, error) {
	d.terms = append(d.terms, append([]byte(nil), term...))
	return false, nil
}
func (d *verifProbeDict) BytesRead() uint64 { return 0 }

type verifProbeReader struct {
	index.IndexReader
	d *verifProbeDict
}

func (r *verifProbeReader) FieldDictContains(field string) (index.FieldDictContains, error) {
	return r.d, nil
}
func (r *verifProbeReader) DocValueReader(fields []string) (index.DocValueReader, error) {
	return &verifDV{}, nil
}

// VerifH_C18_DateLine: a box given with its right edge west of its left edge (it crosses the date
// line) is searched as two boxes; for every 64-bit point hash, a point inside the wrapped box is
// covered by a candidate term of one of the two parts, and no term reaches farther than one detail
// cell from them.
func VerifH_C18_DateLine() {
	type wrapped struct{ tlLon, tlLat, brLon, brLat float64 }
	boxes := []wrapped{
		{179.97, 10.03, -179.96, 10.0},
		{179.99, 90, -179.99, 89.97},  // at the pole as well
		{150, -20, -179.98, -20.04},   // long east part
	}
	w := boxes[rt.Choice("box", rt.Param("boxes", 2))]
	r := &verifProbeReader{d: &verifProbeDict{}}
	s, err := boxSearcher(context.Background(), r, w.tlLon, w.tlLat, w.brLon, w.brLat, "loc", 1.0, search.SearcherOptions{}, rt.Choice("check", 2) == 1)
	rt.Assert(err == nil && s != nil, "boxSearcher succeeds")
	decLon := func(x uint64) float64 { return geo.MortonUnhashLon(numeric.Interleave(x, 0)) }
	decLat := func(y uint64) float64 { return geo.MortonUnhashLat(numeric.Interleave(0, y)) }
	exlo, _, ok1 := verifAxisRange(decLon, w.tlLon, 180)
	_, wxhi, ok2 := verifAxisRange(decLon, -180, w.brLon)
	ylo, yhi, ok3 := verifAxisRange(decLat, w.brLat, w.tlLat)
	rt.Assert(ok1 && ok2 && ok3, "harness: thresholds")
	p := rt.U64("pointhash")
	x := numeric.Deinterleave(p)
	y := numeric.Deinterleave(p >> 1)
	inside := rt.And(rt.Or(x >= exlo, x <= wxhi), y >= ylo, y <= yhi)
	hit := false
	for _, t := range r.d.terms {
		pc := numeric.PrefixCoded(t)
		shift, e1 := pc.Shift()
		v, e2 := pc.Int64()
		rt.Assert(e1 == nil && e2 == nil, "probed terms are well-formed")
		hit = rt.Or(hit, (p>>shift) == (uint64(v)>>shift))
	}
	rt.Assert(rt.Implies(inside, hit), "every point inside the wrapped box is covered by a candidate term")
	const cell = uint64(1) << 18
	near := rt.And(rt.Or(x+cell >= exlo, x <= wxhi+cell), y+cell >= ylo, y <= yhi+cell)
	rt.Assert(rt.Implies(hit, near), "candidate terms stay within one detail cell of the wrapped box")
	rt.Cover(rt.And(hit, x >= exlo), "east-part")
	rt.Cover(rt.And(hit, x <= wxhi), "west-part")
}
