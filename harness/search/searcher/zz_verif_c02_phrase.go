//go:build verif

package searcher

import (
	"context"

	rt "github.com/blevesearch/bleve/v2/internal/verifrt"
	"github.com/blevesearch/bleve/v2/search"
	index "github.com/blevesearch/bleve_index_api"
)

// verifPosIdx: a stub index of n documents; term tK of field f occurs in document d at the
// (symbolic) positions pos[K][d] if has[K][d].
type verifPosIdx struct {
	index.IndexReader
	n   int
	has [][]bool
	pos [][][]uint64
}

type verifPosTFR struct {
	x    *verifPosIdx
	term int
	cur  int
}

func (r *verifPosTFR) Next(pre *index.TermFieldDoc) (*index.TermFieldDoc, error) {
	for r.cur < r.x.n {
		d := r.cur
		r.cur++
		if r.term >= 0 && r.x.has[r.term][d] {
			if pre == nil {
				pre = &index.TermFieldDoc{}
			}
			pre.ID = index.NewIndexInternalID(pre.ID, uint64(d))
			pre.Freq, pre.Norm = uint64(len(r.x.pos[r.term][d])), 1
			pre.Vectors = pre.Vectors[:0]
			for _, p := range r.x.pos[r.term][d] {
				pre.Vectors = append(pre.Vectors, &index.TermFieldVector{Field: "f", Pos: p, Start: p * 2, End: p*2 + 1})
			}
			return pre, nil
		}
	}
	return nil, nil
}
func (r *verifPosTFR) Advance(ID index.IndexInternalID, pre *index.TermFieldDoc) (*index.TermFieldDoc, error) {
	if t := int(ID.Value()); t > r.cur {
		r.cur = t
	}
	return r.Next(pre)
}
func (r *verifPosTFR) Count() uint64 { return 1 }
func (r *verifPosTFR) Close() error  { return nil }
func (r *verifPosTFR) Size() int     { return 8 }

func (x *verifPosIdx) TermFieldReader(ctx context.Context, term []byte, field string, includeFreq, includeNorm, includeTermVectors bool) (index.TermFieldReader, error) {
	k := -1
	if field == "f" && len(term) == 2 && term[0] == 't' && int(term[1]-'0') < len(x.has) {
		k = int(term[1] - '0')
	}
	return &verifPosTFR{x: x, term: k}, nil
}
func (x *verifPosIdx) DocCount() (uint64, error) { return uint64(x.n), nil }

// VerifH_C02_Phrase: the phrase searcher (conjunction of term searchers with term vectors, then
// findPhrasePaths) for the phrases "t0 t1" and "t0 t1 t2" over a stub index in which each term occurs
// in each document at up to two symbolic positions: a document is returned exactly when it holds the
// terms at consecutive positions in phrase order; results ascend, none repeated.
func VerifH_C02_Phrase() {
	n := rt.Param("docs", 2)
	nterms := rt.Choice("phrase_len", 2) + 2
	x := &verifPosIdx{n: n}
	for k := 0; k < nterms; k++ {
		hs := make([]bool, n)
		ps := make([][]uint64, n)
		for d := 0; d < n; d++ {
			hs[d] = rt.Choice("has", 2) == 1
			np := rt.Choice("npos", 2) + 1
			for i := 0; i < np; i++ {
				p := uint64(rt.U8("pos"))
				rt.Assume(rt.And(p >= 1, p <= 5))
				if i > 0 {
					rt.Assume(p > ps[d][i-1]) // positions of a term in a document ascend
				}
				ps[d] = append(ps[d], p)
			}
		}
		x.has = append(x.has, hs)
		x.pos = append(x.pos, ps)
	}
	terms := []string{"t0", "t1", "t2"}[:nterms]
	opts := search.SearcherOptions{}
	s, err := NewPhraseSearcher(context.Background(), x, terms, 0, false, "f", 1.0, opts)
	rt.Assert(err == nil, "the phrase searcher is built")
	if err != nil {
		return
	}
	sc := &search.SearchContext{DocumentMatchPool: search.NewDocumentMatchPool(s.DocumentMatchPoolSize()+4, 0)}
	got := make([]bool, n)
	last := -1
	for i := 0; i <= n; i++ {
		dm, err := s.Next(sc)
		rt.Assert(err == nil, "Next")
		if dm == nil {
			break
		}
		d := int(dm.IndexInternalID.Value())
		rt.Assert(rt.And(d > last, d < n), "results are documents of the index in ascending order, none repeated")
		if d <= last || d >= n {
			return
		}
		last = d
		got[d] = true
	}
	for d := 0; d < n; d++ {
		// expected: a chain p0, p0+1, (p0+2) through the terms' positions
		want := false
		all := true
		for k := 0; k < nterms; k++ {
			all = all && x.has[k][d]
		}
		if all {
			for _, p0 := range x.pos[0][d] {
				ok := true
				for k := 1; k < nterms; k++ {
					found := false
					for _, q := range x.pos[k][d] {
						found = rt.Or(found, q == p0+uint64(k))
					}
					ok = rt.And(ok, found)
				}
				want = rt.Or(want, ok)
			}
		}
		rt.Assert(got[d] == want, "a document matches the phrase exactly when it holds the terms at consecutive positions in order")
	}
	rt.Cover(rt.And(!got[n-1], x.has[0][n-1], x.has[1][n-1], nterms == 2), "terms-present-but-not-adjacent")
}
