//go:build verif

package searcher

import (
	"context"

	rt "github.com/blevesearch/bleve/v2/internal/verifrt"
	"github.com/blevesearch/bleve/v2/search"
	index "github.com/blevesearch/bleve_index_api"
)

// A concrete forest of nested documents: parent[d] is the document number of d's parent, -1 for a
// root. Children follow their parent (the layout zap produces: a root and then its descendants).
type verifForest struct {
	index.IndexReader
	parent []int
}

func (f *verifForest) Ancestors(id index.IndexInternalID, prealloc []index.AncestorID) ([]index.AncestorID, error) {
	d := int(id.Value())
	rv := prealloc[:0]
	for d >= 0 && d < len(f.parent) {
		rv = append(rv, index.NewAncestorID(uint64(d)))
		d = f.parent[d]
	}
	return rv, nil
}

func (f *verifForest) depth(d int) int {
	n := 0
	for f.parent[d] >= 0 {
		d = f.parent[d]
		n++
	}
	return n
}

// keyAt returns the ancestor of d at the given depth from the root (d itself if it is that shallow).
func (f *verifForest) keyAt(d, depth int) int {
	for f.depth(d) > depth {
		d = f.parent[d]
	}
	return d
}

var verifForests = [][]int{
	// two parents; the first has an array of two elements, the second one element
	{-1, 0, 0, -1, 3},
	// one parent with two sibling arrays (elements 1,2 and 3), then a parent without elements, then one with one element
	{-1, 0, 0, 0, -1, -1, 5},
	// two nesting levels: root 0 -> element 1 -> sub-elements 2,3 ; element 4 -> sub-element 5
	{-1, 0, 1, 1, 0, 4},
}

// verifMaskLeaf: a leaf over concrete candidate documents each of which is symbolically present.
type verifMaskLeaf struct {
	cands   []int
	present []bool
	pos     int
}

func verifMakeMaskLeaf(cands []int) *verifMaskLeaf {
	l := &verifMaskLeaf{cands: cands, present: make([]bool, len(cands))}
	for i := range cands {
		l.present[i] = rt.Bool("present")
	}
	return l
}

func (l *verifMaskLeaf) has(d int) bool {
	for i, c := range l.cands {
		if c == d {
			return l.present[i]
		}
	}
	return false
}

func (l *verifMaskLeaf) Next(ctx *search.SearchContext) (*search.DocumentMatch, error) {
	for l.pos < len(l.cands) && !l.present[l.pos] {
		l.pos++
	}
	if l.pos >= len(l.cands) {
		return nil, nil
	}
	dm := ctx.DocumentMatchPool.Get()
	dm.IndexInternalID = index.NewIndexInternalID(dm.IndexInternalID, uint64(l.cands[l.pos]))
	dm.Score = 1
	l.pos++
	return dm, nil
}

func (l *verifMaskLeaf) Advance(ctx *search.SearchContext, ID index.IndexInternalID) (*search.DocumentMatch, error) {
	t := int(ID.Value())
	for l.pos < len(l.cands) && l.cands[l.pos] < t {
		l.pos++
	}
	return l.Next(ctx)
}
func (l *verifMaskLeaf) Close() error               { return nil }
func (l *verifMaskLeaf) Weight() float64            { return 1 }
func (l *verifMaskLeaf) SetQueryNorm(float64)       {}
func (l *verifMaskLeaf) Count() uint64              { return uint64(len(l.cands)) }
func (l *verifMaskLeaf) Min() int                   { return 0 }
func (l *verifMaskLeaf) Size() int                  { return 0 }
func (l *verifMaskLeaf) DocumentMatchPoolSize() int { return 1 }

// VerifH_C20_NestedConjunction: the nested conjunction searcher over a concrete forest with
// conjuncts whose matches are symbolic subsets of the documents at the join depth or below:
// the stream it yields is, in ascending order and without repeats, exactly the matches of all
// conjuncts that lie under a join key (ancestor at the join depth) under which every conjunct has a
// match - i.e. a parent qualifies only if ONE element satisfies all conjuncts when the join depth is
// the element level, and per parent when it is the root level. Programs of Next/Advance calls.
func VerifH_C20_NestedConjunction() {
	fi := rt.Choice("forest", rt.Param("forests", len(verifForests)))
	f := &verifForest{parent: verifForests[fi]}
	joinDepth := rt.Choice("join_depth", 2) // 0: per root, 1: per first-level element
	nconj := rt.Choice("conjuncts", rt.Param("max_conjuncts", 2)-1) + 2
	// candidates: documents at depth >= joinDepth
	var cands []int
	for d := range f.parent {
		if f.depth(d) >= joinDepth {
			cands = append(cands, d)
		}
	}
	var ls []*verifMaskLeaf
	var ss []search.Searcher
	maxDepth := 0
	for d := range f.parent {
		if f.depth(d) > maxDepth {
			maxDepth = f.depth(d)
		}
	}
	for i := 0; i < nconj; i++ {
		// a conjunct addresses a field of one nesting level: its matches all have the same depth
		dpt := joinDepth + rt.Choice("conjunct_depth", maxDepth-joinDepth+1)
		var mine []int
		for _, c := range cands {
			if f.depth(c) == dpt {
				mine = append(mine, c)
			}
		}
		l := verifMakeMaskLeaf(mine)
		ls = append(ls, l)
		ss = append(ss, l)
	}
	s, err := NewNestedConjunctionSearcher(context.Background(), f, ss, joinDepth, search.SearcherOptions{})
	rt.Assert(err == nil, "constructor")
	keyOK := func(k int) bool {
		all := true
		for _, l := range ls {
			any := false
			for _, c := range cands {
				if f.keyAt(c, joinDepth) == k {
					any = rt.Or(any, l.has(c))
				}
			}
			all = rt.And(all, any)
		}
		return all
	}
	isMatch := func(d int) bool {
		in := false
		for _, l := range ls {
			in = rt.Or(in, l.has(d))
		}
		return rt.And(in, keyOK(f.keyAt(d, joinDepth)))
	}
	ctx := &search.SearchContext{DocumentMatchPool: search.NewDocumentMatchPool(s.DocumentMatchPoolSize()+16, 0)}
	last := -1
	returned := 0
	ncalls := rt.Param("calls", 3)
	for c := 0; c < ncalls; c++ {
		lower := last + 1
		var dm *search.DocumentMatch
		if rt.Param("advance", 1) == 1 && rt.Choice("op", 2) == 1 {
			t := rt.Choice("target", len(f.parent))
			rt.Assume(t > last)
			lower = t
			dm, err = s.Advance(ctx, index.NewIndexInternalID(nil, uint64(t)))
		} else {
			dm, err = s.Next(ctx)
		}
		rt.Assert(err == nil, "no error")
		exp := verifNone
		for i := len(cands) - 1; i >= 0; i-- {
			d := cands[i]
			if d >= lower {
				exp = rt.IteInt(isMatch(d), d, exp)
			}
		}
		if dm == nil {
			rt.Assert(exp == verifNone, "a qualifying match at or after the target is never skipped")
			last = 1000
		} else {
			got := int(dm.IndexInternalID.Value())
			rt.Assert(got > last, "ids strictly ascending, no repeats")
			rt.Assert(got == exp, "the first qualifying match at or after the target")
			last = got
			returned++
		}
	}
	rt.Cover(returned >= 2, "two-results")
	rt.Cover(rt.And(returned == 0, joinDepth == 1), "no-single-element-satisfies-all")
}
