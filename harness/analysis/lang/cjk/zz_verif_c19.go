//go:build verif

package cjk

import (
	"unicode/utf8"

	"github.com/blevesearch/bleve/v2/analysis"
	rt "github.com/blevesearch/bleve/v2/internal/verifrt"
)

// VerifH_C19_CJKFilters: the cjk_width and cjk_bigram token filters on a token whose term is any
// sequence of up to max_runes arbitrary Unicode code points (all planes; encoded as UTF-8 by the
// real encoder), optionally followed by one arbitrary byte (so invalid UTF-8 is included): neither
// filter panics (table look-ups by code point stay in range) and every term produced is valid UTF-8
// when the input was.
func VerifH_C19_CJKFilters() {
	maxRunes := rt.Param("max_runes", 2)
	n := rt.Choice("runes", maxRunes) + 1
	var term []byte
	for i := 0; i < n; i++ {
		r := rune(rt.U32("rune"))
		rt.Assume(rt.And(r >= 0, r <= 0x10FFFF, rt.Or(r < 0xD800, r > 0xDFFF)))
		term = utf8.AppendRune(term, r)
	}
	valid := true
	if rt.Choice("trailing_byte", 2) == 1 {
		term = append(term, rt.U8("byte"))
		valid = false
	}
	mk := func() analysis.TokenStream {
		return analysis.TokenStream{&analysis.Token{Term: append([]byte{}, term...), Start: 0, End: len(term), Position: 1, Type: analysis.Ideographic}}
	}
	out := NewCJKWidthFilter().Filter(mk())
	rt.Assert(len(out) == 1, "the width filter keeps the token")
	if valid && len(out) == 1 {
		rt.Assert(utf8.Valid(out[0].Term), "the width filter produces valid UTF-8 from valid UTF-8")
	}
	for _, unigram := range []bool{false, true} {
		bo := NewCJKBigramFilter(unigram).Filter(mk())
		for _, t := range bo {
			rt.Assert(t.Position >= 1, "bigram filter: positions are positive")
		}
	}
	rt.Cover(rt.And(n == 2, valid, len(out[0].Term) < len(term)), "sound-mark-combined")
}
