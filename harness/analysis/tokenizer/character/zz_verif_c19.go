//go:build verif

package character

import (
	"unicode"

	"github.com/blevesearch/bleve/v2/analysis"
	"github.com/blevesearch/bleve/v2/analysis/token/apostrophe"
	"github.com/blevesearch/bleve/v2/analysis/token/camelcase"
	"github.com/blevesearch/bleve/v2/analysis/token/edgengram"
	"github.com/blevesearch/bleve/v2/analysis/token/elision"
	"github.com/blevesearch/bleve/v2/analysis/token/length"
	"github.com/blevesearch/bleve/v2/analysis/token/lowercase"
	"github.com/blevesearch/bleve/v2/analysis/token/ngram"
	"github.com/blevesearch/bleve/v2/analysis/token/reverse"
	"github.com/blevesearch/bleve/v2/analysis/token/shingle"
	"github.com/blevesearch/bleve/v2/analysis/token/truncate"
	"github.com/blevesearch/bleve/v2/analysis/token/unique"
	"github.com/blevesearch/bleve/v2/analysis/tokenizer/single"
	rt "github.com/blevesearch/bleve/v2/internal/verifrt"
)

func verifInput() []byte {
	maxLen := rt.Param("max_len", 3)
	n := rt.Choice("len", maxLen+1)
	return rt.Bytes("in", n)
}

// verifCheckTokens asserts the tokenizer contract of C19 on a stream produced from input.
func verifCheckTokens(input []byte, ts analysis.TokenStream, termIsSlice bool) {
	prevStart, prevPos := 0, 0
	for _, t := range ts {
		rt.Assert(rt.And(0 <= t.Start, t.Start <= t.End, t.End <= len(input)), "0 <= Start <= End <= len(input)")
		rt.Assert(t.Start >= prevStart, "starts are non-decreasing")
		rt.Assert(t.Position >= 1, "positions are positive")
		rt.Assert(t.Position >= prevPos, "positions are non-decreasing")
		if termIsSlice && 0 <= t.Start && t.Start <= t.End && t.End <= len(input) {
			rt.Assert(rt.EqBytes(t.Term, input[t.Start:t.End]), "term is the source text at its offsets")
		}
		prevStart, prevPos = t.Start, t.Position
	}
}

func verifNotSpace(r rune) bool { return !unicode.IsSpace(r) }

// VerifH_C19_WhitespaceTokenizer: the character tokenizer as instantiated by the whitespace tokenizer,
// on every byte string up to max_len (all 256 byte values, so invalid UTF-8 included).
func VerifH_C19_WhitespaceTokenizer() {
	in := verifInput()
	ts := NewCharacterTokenizer(verifNotSpace).Tokenize(in)
	verifCheckTokens(in, ts, true)
	rt.Cover(len(ts) >= 2, "two-tokens")
	if len(ts) == 1 {
		rt.Cover(rt.And(len(in) >= 2, ts[0].Start > 0), "leading-space")
	}
}

// VerifH_C19_LetterTokenizer: the letter instantiation (unicode.IsLetter over the real unicode tables).
func VerifH_C19_LetterTokenizer() {
	in := verifInput()
	ts := NewCharacterTokenizer(unicode.IsLetter).Tokenize(in)
	verifCheckTokens(in, ts, true)
	rt.Cover(len(ts) >= 1, "a-token")
}

// VerifH_C19_SingleTokenizer
func VerifH_C19_SingleTokenizer() {
	in := verifInput()
	ts := single.NewSingleTokenTokenizer().Tokenize(in)
	verifCheckTokens(in, ts, true)
	rt.Assert(len(ts) == 1, "exactly one token")
}

// verifFilterOut: C19 asks of a token filter only that it terminates without panicking (both are
// implicit in reaching this point); what is asserted in addition is the part of the offset contract
// that no filter may break: Start <= End, or the filler marker -1 of the shingle filter.
// (An earlier version also demanded End <= len(input); the camelcase filter recomputes End from the
// re-encoded runes, so for invalid UTF-8 it overshoots. C19 does not forbid that for filters: the
// assertion was stronger than the property and was removed, see DESIGN.md section 9.)
func verifFilterOut(input []byte, out analysis.TokenStream, allowFiller bool) {
	for _, t := range out {
		if allowFiller && t.Start == -1 {
			continue
		}
		rt.Assert(rt.And(0 <= t.Start, t.Start <= t.End), "filter output offsets are ordered")
	}
}

// VerifH_C19_Filters: byte-level token filters applied to the single token over arbitrary bytes
// (the `single`/`keyword` analyzers feed filters unvalidated input) and to the whitespace token stream.
func VerifH_C19_Filters() {
	in := verifInput()
	var ts analysis.TokenStream
	src := rt.Choice("source", 2)
	if src == 0 {
		ts = single.NewSingleTokenTokenizer().Tokenize(in)
	} else {
		ts = NewCharacterTokenizer(verifNotSpace).Tokenize(in)
	}
	which := rt.Choice("filter", 11)
	// each filter gets its own copy of the stream (filters may modify tokens in place)
	switch which {
	case 0:
		verifFilterOut(in, ngram.NewNgramFilter(1, 2).Filter(ts), false)
	case 1:
		verifFilterOut(in, edgengram.NewEdgeNgramFilter(edgengram.FRONT, 1, 2).Filter(ts), false)
	case 2:
		verifFilterOut(in, edgengram.NewEdgeNgramFilter(edgengram.BACK, 1, 2).Filter(ts), false)
	case 3:
		out := truncate.NewTruncateTokenFilter(1).Filter(ts)
		verifFilterOut(in, out, false)
	case 4:
		verifFilterOut(in, length.NewLengthFilter(1, 2).Filter(ts), false)
	case 5:
		verifFilterOut(in, camelcase.NewCamelCaseFilter().Filter(ts), false)
	case 6:
		verifFilterOut(in, shingle.NewShingleFilter(2, 2, true, " ", "_").Filter(ts), true)
	case 7:
		verifFilterOut(in, lowercase.NewLowerCaseFilter().Filter(ts), false)
	case 8:
		verifFilterOut(in, reverse.NewReverseFilter().Filter(ts), false)
	case 9:
		verifFilterOut(in, apostrophe.NewApostropheFilter().Filter(ts), false)
	case 10:
		arts := analysis.NewTokenMap()
		arts.AddToken("l")
		verifFilterOut(in, elision.NewElisionFilter(arts).Filter(ts), false)
		verifFilterOut(in, unique.NewUniqueTermFilter().Filter(ts), false)
	}
	rt.Cover(rt.And(which == 0, len(in) >= 2), "ngram-ran")
	rt.Cover(rt.And(which == 5, len(in) >= 2), "camelcase-ran")
	rt.Cover(rt.And(which == 6, len(ts) >= 2), "shingle-two-tokens")
}

// VerifH_C19_TermFreq: TokenFrequency on the filtered stream never panics and keeps locations inside the source.
func VerifH_C19_TermFreq() {
	in := verifInput()
	ts := NewCharacterTokenizer(verifNotSpace).Tokenize(in)
	tf := analysis.TokenFrequency(ts, nil, 3) // index.IncludeTermVectors|... bits do not matter for offsets
	total := 0
	for _, f := range tf {
		total += f.Frequency()
		for _, l := range f.Locations {
			rt.Assert(rt.And(0 <= l.Start, l.Start <= l.End, l.End <= len(in)), "term vector offsets inside the source")
		}
	}
	rt.Assert(total == len(ts), "every token is counted exactly once")
}
