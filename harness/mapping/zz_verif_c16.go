//go:build verif

package mapping

import (
	_ "github.com/blevesearch/bleve/v2/analysis/analyzer/custom"
	_ "github.com/blevesearch/bleve/v2/analysis/datetime/flexible"
	_ "github.com/blevesearch/bleve/v2/analysis/token/stop"
	_ "github.com/blevesearch/bleve/v2/analysis/tokenizer/single"
	_ "github.com/blevesearch/bleve/v2/analysis/tokenmap"
	rt "github.com/blevesearch/bleve/v2/internal/verifrt"
	"github.com/blevesearch/bleve/v2/util"
)

// verifOpt: a string option that is either empty or a one-letter symbolic value. Whether the empty
// value is explored depends on the allow_empty bound: 0 never, 1 for index-level options only
// (level 1), 2 for every option.
func verifOpt(label string) string { return verifOptL(label, 2) }

func verifOptL(label string, level int) string {
	if rt.Param("allow_empty", 1) >= level && rt.Choice(label+"_empty", 2) == 1 {
		return ""
	}
	s := rt.String(label, 1)
	rt.Assume(rt.And(s[0] >= 'a', s[0] <= 'z'))
	return s
}

func verifFieldMapping(i int) *FieldMapping {
	fm := &FieldMapping{
		Name:               verifOpt("fm_name"),
		Type:               "text",
		Analyzer:           verifOpt("fm_analyzer"),
		Store:              rt.Bool("store"),
		Index:              rt.Bool("index"),
		IncludeTermVectors: rt.Bool("tv"),
		IncludeInAll:       rt.Bool("in_all"),
		DocValues:          rt.Bool("docvalues"),
		SkipFreqNorm:       rt.Bool("skip_freq_norm"),
		DateFormat:         verifOpt("fm_date_format"),
	}
	return fm
}

func verifEqField(a, b *FieldMapping) bool {
	return rt.And(rt.EqString(a.Name, b.Name), rt.EqString(a.Type, b.Type), rt.EqString(a.Analyzer, b.Analyzer),
		a.Store == b.Store, a.Index == b.Index, a.IncludeTermVectors == b.IncludeTermVectors,
		a.IncludeInAll == b.IncludeInAll, a.DocValues == b.DocValues, a.SkipFreqNorm == b.SkipFreqNorm,
		rt.EqString(a.DateFormat, b.DateFormat), a.Dims == b.Dims, rt.EqString(a.Similarity, b.Similarity))
}

func verifEqDoc(a, b *DocumentMapping, depth int) bool {
	if a == nil || b == nil {
		return a == nil && b == nil
	}
	ok := rt.And(a.Enabled == b.Enabled, a.Dynamic == b.Dynamic, a.Nested == b.Nested,
		rt.EqString(a.DefaultAnalyzer, b.DefaultAnalyzer), rt.EqString(a.StructTagKey, b.StructTagKey),
		len(a.Fields) == len(b.Fields), len(a.Properties) == len(b.Properties))
	if len(a.Fields) == len(b.Fields) {
		for i := range a.Fields {
			ok = rt.And(ok, verifEqField(a.Fields[i], b.Fields[i]))
		}
	}
	for k, pa := range a.Properties {
		pb, found := b.Properties[k]
		if !found {
			return false
		}
		if depth > 0 {
			ok = rt.And(ok, verifEqDoc(pa, pb, depth-1))
		}
	}
	return ok
}

func verifDocMapping(withProps bool) *DocumentMapping {
	dm := &DocumentMapping{
		Enabled:         rt.Bool("enabled"),
		Dynamic:         rt.Bool("dynamic"),
		Nested:          rt.Bool("nested"),
		DefaultAnalyzer: verifOpt("dm_analyzer"),
	}
	if withProps {
		nf := rt.Choice("nfields", rt.Param("max_fields", 1)+1)
		sub := &DocumentMapping{Enabled: rt.Bool("enabled"), Dynamic: rt.Bool("dynamic")}
		for i := 0; i < nf; i++ {
			sub.Fields = append(sub.Fields, verifFieldMapping(i))
		}
		dm.Properties = map[string]*DocumentMapping{"p": sub}
	}
	return dm
}

// VerifH_C16_RoundTrip: an index mapping whose every boolean option is symbolic and whose string
// options are empty or an arbitrary letter (default mapping with a sub-document carrying 0..max_fields
// field mappings, optionally a type mapping) is serialised and parsed back through the mapping's own
// MarshalJSON/UnmarshalJSON code: the parsed mapping equals the original option by option - nothing
// lost, defaulted differently or applied elsewhere - and serialises to the same JSON again.
func VerifH_C16_RoundTrip() {
	im := NewIndexMapping()
	im.StoreDynamic = rt.Bool("store_dynamic")
	im.IndexDynamic = rt.Bool("index_dynamic")
	im.DocValuesDynamic = rt.Bool("docvalues_dynamic")
	im.TypeField = verifOptL("type_field", 1)
	im.DefaultType = verifOptL("default_type", 1)
	im.DefaultAnalyzer = verifOptL("default_analyzer", 1)
	im.DefaultDateTimeParser = verifOptL("default_datetime_parser", 1)
	im.DefaultField = verifOptL("default_field", 1)
	im.ScoringModel = verifOptL("scoring_model", 1)
	im.DefaultMapping = verifDocMapping(true)
	if rt.Choice("type_mapping", 2) == 1 {
		im.TypeMapping["t"] = verifDocMapping(false)
	}
	data, err := util.MarshalJSON(im)
	rt.Assert(err == nil, "mapping serialises")
	var back IndexMappingImpl
	err = util.UnmarshalJSON(data, &back)
	rt.Assert(err == nil, "serialised mapping parses")
	rt.Assert(rt.And(back.StoreDynamic == im.StoreDynamic, back.IndexDynamic == im.IndexDynamic, back.DocValuesDynamic == im.DocValuesDynamic), "index-level dynamic flags survive")
	rt.Assert(rt.And(rt.EqString(back.TypeField, im.TypeField), rt.EqString(back.DefaultType, im.DefaultType),
		rt.EqString(back.DefaultAnalyzer, im.DefaultAnalyzer), rt.EqString(back.DefaultDateTimeParser, im.DefaultDateTimeParser),
		rt.EqString(back.DefaultField, im.DefaultField), rt.EqString(back.ScoringModel, im.ScoringModel)), "index-level string options survive")
	rt.Assert(verifEqDoc(back.DefaultMapping, im.DefaultMapping, 2), "default mapping survives, option by option")
	rt.Assert(len(back.TypeMapping) == len(im.TypeMapping), "type mappings survive")
	if tm, ok := im.TypeMapping["t"]; ok {
		rt.Assert(verifEqDoc(back.TypeMapping["t"], tm, 2), "type mapping survives, option by option")
	}
	data2, err := util.MarshalJSON(&back)
	rt.Assert(err == nil, "parsed mapping serialises")
	rt.Assert(rt.JSONEqual(data, data2), "the parsed mapping serialises to the same JSON")
	rt.Cover(len(im.DefaultMapping.Properties["p"].Fields) >= 1, "with-field-mapping")
}

// VerifH_C16_CustomAnalysis: a mapping that defines its own analysis components, each referring to
// another custom component by name (token map <- stop filter <- analyzer <- synonym source, a custom
// tokenizer and date-time parser; which of them are present is symbolic), built through the public
// Add* methods, survives its JSON form: the parsed mapping registers every component again (the
// parse succeeds whatever the definition order in the JSON object) and resolves the same names.
func VerifH_C16_CustomAnalysis() {
	im := NewIndexMapping()
	withMap := rt.Choice("token_map", 2) == 1
	withSyn := rt.Choice("synonym_source", 2) == 1
	withDate := rt.Choice("date_time_parser", 2) == 1
	var filters []interface{}
	if withMap {
		rt.Assert(im.AddCustomTokenMap("m", map[string]interface{}{"type": "custom", "tokens": []interface{}{"the"}}) == nil, "define token map")
		rt.Assert(im.AddCustomTokenFilter("f", map[string]interface{}{"type": "stop_tokens", "stop_token_map": "m"}) == nil, "define token filter")
		filters = append(filters, "f")
	}
	rt.Assert(im.AddCustomTokenizer("t", map[string]interface{}{"type": "single"}) == nil, "define tokenizer")
	cfg := map[string]interface{}{"type": "custom", "tokenizer": "t"}
	if filters != nil {
		cfg["token_filters"] = filters
	}
	rt.Assert(im.AddCustomAnalyzer("a", cfg) == nil, "define analyzer")
	if withSyn {
		rt.Assert(im.AddSynonymSource("s", map[string]interface{}{"collection": "c", "analyzer": "a"}) == nil, "define synonym source")
	}
	if withDate {
		rt.Assert(im.AddCustomDateTimeParser("d", map[string]interface{}{"type": "flexiblego", "layouts": []interface{}{"2006-01-02"}}) == nil, "define date time parser")
	}
	im.DefaultAnalyzer = "a"
	data, err := util.MarshalJSON(im)
	rt.Assert(err == nil, "mapping serialises")
	var back IndexMappingImpl
	err = util.UnmarshalJSON(data, &back)
	rt.Assert(err == nil, "a mapping with custom analysis components parses back (every component can be registered again)")
	if err != nil {
		return
	}
	rt.Assert(back.AnalyzerNamed("a") != nil, "the custom analyzer is available after parsing")
	if withDate {
		rt.Assert(back.DateTimeParserNamed("d") != nil, "the custom date time parser is available after parsing")
	}
	rt.Assert(back.DefaultAnalyzer == "a", "default analyzer name survives")
	rt.Assert(len(back.CustomAnalysis.Analyzers) == 1 && len(back.CustomAnalysis.Tokenizers) == 1, "custom definitions survive")
	rt.Assert(len(back.CustomAnalysis.SynonymSources) == len(im.CustomAnalysis.SynonymSources), "synonym sources survive")
	rt.Cover(withSyn && withMap, "synonym-source-over-custom-analyzer")
}
