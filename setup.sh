#!/bin/sh
# Builds the symgo engine (vendored x/tools v0.50.0) with go1.26.8, offline.
set -e
cd "$(dirname "$0")/engine"
export PATH=/opt/veriftools/go1.26.8/bin:$PATH GOTOOLCHAIN=local GOFLAGS=-mod=vendor GOPROXY=off
mkdir -p ../bin
go build -o ../bin/verif ./cmd/verif
# encoder micro-suite: constant folding, model evaluation and the solver's reading of the printed
# terms must agree (a failure makes every check inconclusive rather than trusted)
go test ./smt/ ./interp/ || { echo "engine self-test failed"; exit 1; }
echo "setup ok"
