#!/bin/sh
# Builds the symgo engine (vendored x/tools v0.50.0) with go1.26.8, offline.
set -e
cd "$(dirname "$0")/engine"
export PATH=/opt/veriftools/go1.26.8/bin:$PATH GOTOOLCHAIN=local GOFLAGS=-mod=vendor GOPROXY=off
mkdir -p ../bin
go build -o ../bin/verif ./cmd/verif
go test ./smt/ ./interp/ 2>&1 | tail -5
echo "setup ok"
