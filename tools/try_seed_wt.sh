#!/bin/bash
# usage: try_seed_wt.sh <seed dir> <property> [extra verif args]
# Tries a seeded change WITHOUT touching /repo: scratch worktree of /repo's HEAD + the patch, the tool
# pointed at it with VERIF_REPO, evidence and replays written to a scratch directory. Development aid
# only; the registered way (tools/try_seed.sh: apply to /repo, run the check, revert) is what counts.
seed=$(realpath "$1"); prop=$2; shift 2
wt=$(mktemp -d /tmp/wt-try-XXXX); rmdir "$wt"
git -C /repo worktree add -q --detach "$wt" HEAD || exit 2
ev=$(mktemp -d /tmp/ev-try-XXXX)
trap 'git -C /repo worktree remove --force "$wt" >/dev/null 2>&1; rm -rf "$ev"' EXIT
( cd "$wt" && git apply "$seed/patch.diff" ) || exit 2
( cd /verif && VERIF_REPO="$wt" VERIF_EVIDENCE_DIR="$ev" timeout 3000 ./bin/verif check "$prop" "$@" 2>&1 | grep -v "^loaded" | cut -c1-300 | tail -40 )

