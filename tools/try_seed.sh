#!/bin/bash
# usage: try_seed.sh <seed dir> <property> [extra verif args]: applies the seeded change to /repo, runs the check, undoes it.
seed=$1; prop=$2; shift 2
git -C /repo apply "$seed/patch.diff" || exit 2
( cd /verif && timeout 3000 ./bin/verif check "$prop" "$@" 2>&1 | grep -v "^loaded" | cut -c1-260 | tail -8 )
git -C /repo checkout -- .
git -C /repo status --short | head -3
