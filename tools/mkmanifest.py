#!/usr/bin/env python3
"""Regenerates /verif/MANIFEST.json from tools/claims.json (one entry per property)."""
import json, os
root = os.path.dirname(os.path.dirname(os.path.abspath(__file__)))
claims = json.load(open(os.path.join(root, "tools", "claims.json")))
props = [json.loads(l)["id"] for l in open(os.path.join(root, "properties.jsonl"))]
checks, na = [], []
for pid in props:
    c = claims.get(pid, {})
    if c.get("claimed"):
        checks.append({
            "property_id": pid,
            "quick_cmd": "./check.sh %s quick" % pid,
            "thorough_cmd": "./check.sh %s thorough" % pid,
            "evidence_file": "/verif/evidence/%s.json" % pid,
            "replay_cmd_template": "./bin/verif replay {path}",
            "engine": "symgo",
            "level_claimed": {"category": "model_checking", "text": c["text"], "design_ref": c.get("design_ref", "DESIGN.md section 4, " + pid)},
            "level_note": c["note"],
            "technique": c.get("technique", "bounded symbolic execution of the real Go functions (go/ssa of /repo's working tree) to SMT-LIB2 bit-vector/FP queries decided by z3; counterexamples replayed natively"),
        })
    else:
        na.append({"property_id": pid, "reason": c.get("reason", "not built yet in this session (see DESIGN.md section 5)")})
m = {
    "version": 1,
    "setup_cmd": "./setup.sh",
    "hooks": {"guard": "verif", "enable": "harnesses, the verifrt runtime and generated loop-step functions are injected as go overlay files built with -tags verif; nothing is committed to /repo",
              "baseline_off_cmd": "cd /repo && go test -mod=mod -vet=off -count=1 -timeout 25m ./...", "source_commits": [], "add_only": True},
    "engines": [{"name": "symgo", "path": "/verif/engine", "serves_properties": [c["property_id"] for c in checks],
                 "kind_free_text": "symbolic executor for go/ssa written for this task: path-wise exploration with z3 (SMT-LIB2 over one live pipe per worker), bit-vector and IEEE-754 semantics, concrete heap shape with symbolic contents, native replay of every model through go test -overlay"}],
    "checks": checks,
    "not_applicable": na,
    "notes": "exit 0 = held within the stated bounds; exit 1 = reproduced counterexample (VIOLATION line); exit 2 = inconclusive (unsupported construct, solver unknown, unreproducible model): no claim. Bounds, models and assumptions per property: DESIGN.md section 4 and the evidence files.",
}
json.dump(m, open(os.path.join(root, "MANIFEST.json"), "w"), indent=1)
print("checks:", [c["property_id"] for c in checks], "n/a:", len(na))
