#!/usr/bin/env python3
"""Regenerates the harness table in DESIGN.md (between the GENERATED markers) from harness/specs.json."""
import json, os, re
root = os.path.dirname(os.path.dirname(os.path.abspath(__file__)))
specs = json.load(open(os.path.join(root, "harness", "specs.json")))
def fmt(t):
    if not t: return "defaults"
    if t.get("skip"): return "skipped"
    p = ", ".join("%s=%s" % kv for kv in sorted((t.get("params") or {}).items()))
    extra = []
    if t.get("budget_s"): extra.append("budget %ss" % t["budget_s"])
    return (p or "defaults") + ((" (" + ", ".join(extra) + ")") if extra else "")
out = []
for pid in sorted(specs):
    ps = specs[pid]
    out.append("**%s**\n" % pid)
    out.append("| harness (package) | decides | quick bounds | thorough bounds | required cover witnesses |")
    out.append("|---|---|---|---|---|")
    for h in ps["harnesses"]:
        out.append("| `%s` (%s) | %s | %s | %s | %s |" % (h["fn"], h["pkg"] or ".", h.get("what", "").replace("|", "/"), fmt(h.get("quick")), fmt(h.get("thorough")), ", ".join(h.get("covers") or []) or "-"))
    for g in ps.get("gen") or []:
        out.append("\nGenerated from source each run: `%s` = %s of `%s` in %s." % (g["name"], g["kind"], g["func"], g["src"]))
    if ps.get("assumptions"):
        out.append("\nAssumptions: " + "; ".join(ps["assumptions"]))
    if ps.get("outside_claim"):
        out.append("\nOutside the claim: " + "; ".join(ps["outside_claim"]))
    out.append("")
p = os.path.join(root, "DESIGN.md")
s = open(p).read()
b, e = "<!-- BEGIN GENERATED HARNESS TABLE -->", "<!-- END GENERATED HARNESS TABLE -->"
i, j = s.index(b), s.index(e)
s = s[:i + len(b)] + "\n" + "\n".join(out) + "\n" + s[j:]
open(p, "w").write(s)
print("harness table: %d properties" % len(specs))
