#!/bin/bash
# usage: confirm_seed.sh <seed dir> : confirms a seeded change in a scratch worktree of /repo's HEAD:
# demo passes without the change; with it: builds, demo fails, the full existing suite still passes.
set -u
seed=$(realpath "$1")
wt=$(mktemp -d /tmp/wt-confirm-XXXX)
rmdir "$wt"
log="$seed/confirm.log"
: > "$log"
git -C /repo worktree add -q --detach "$wt" HEAD || exit 2
cleanup() { git -C /repo worktree remove --force "$wt" >/dev/null 2>&1; }
trap cleanup EXIT
cmd=$(python3 -c "import json,sys; print(json.load(open('$seed/meta.json'))['demo_cmd'])" | sed "s#<repo>#$wt#g; s#cp demo_test.go#cp $seed/demo_test.go#")
echo "demo: $cmd" >> "$log"
( eval "$cmd" ) > "$seed/demo_clean.out" 2>&1; rc_clean=$?
echo "demo on clean tree: exit $rc_clean" >> "$log"
( cd "$wt" && git apply "$seed/patch.diff" ) >> "$log" 2>&1 || { echo "RESULT: patch does not apply" >> "$log"; exit 1; }
( cd "$wt" && go build ./... ) >> "$log" 2>&1; rc_build=$?
echo "build with change: exit $rc_build" >> "$log"
( eval "$cmd" ) > "$seed/demo_changed.out" 2>&1; rc_changed=$?
echo "demo with change: exit $rc_changed" >> "$log"
# the existing suite, without the demo file
find "$wt" -name '*demo_test.go' -newer "$seed/meta.json" -delete 2>/dev/null
( cd "$wt" && git status --short | grep '^??' | awk '{print $2}' | xargs -r rm -f )
( cd "$wt" && go test -mod=mod -vet=off -count=1 -timeout 25m ./... 2>&1 | grep -v '^ok\|no test files' ) > "$seed/suite_changed.out" 2>&1
nfail=$(grep -c 'FAIL' "$seed/suite_changed.out")
echo "existing suite with change: $nfail FAIL lines" >> "$log"
if [ $rc_clean -eq 0 ] && [ $rc_build -eq 0 ] && [ $rc_changed -ne 0 ] && [ "$nfail" -eq 0 ]; then
  echo "RESULT: confirmed" >> "$log"
else
  echo "RESULT: NOT confirmed" >> "$log"
fi
tail -1 "$log"
