#!/bin/bash
# usage: seed_matrix.sh [seed ids...]: runs the quick check of each seed's property against the seeded
# change (scratch worktree, /repo untouched) and appends "<seed> <property> <verdict> <detail>" to seeded/RESULTS.txt
cd /verif
out=seeded/RESULTS.txt
seeds="$@"; [ -z "$seeds" ] && seeds=$(ls seeded | grep '^C')
for sd in $seeds; do
  prop=${sd%-*}
  log=$(mktemp /tmp/matrix-XXXX)
  tools/try_seed_wt.sh seeded/$sd $prop > $log 2>&1
  if grep -q "^VIOLATION" $log; then v=CAUGHT; det=$(grep "counterexample" $log | head -1 | sed 's/.*harness=\([A-Za-z0-9_]*\) label="\([^"]*\)".*/\1: \2/');
  elif grep -q "^OK property" $log; then v=MISSED; det="";
  else v=INCONCLUSIVE; det=$(grep INCONCLUSIVE $log | head -1 | cut -c1-160); fi
  grep -v "^$sd " $out > $out.tmp 2>/dev/null; mv $out.tmp $out 2>/dev/null
  echo "$sd $prop $v $det" >> $out
  rm -f $log
done
sort -o $out $out
