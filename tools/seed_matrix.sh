#!/bin/bash
# usage: seed_matrix.sh [seed[:harness] ...]: runs the quick check of each seed's property against the
# seeded change (scratch worktree, /repo untouched) and records "<seed> <property> <verdict> <detail>" in
# seeded/RESULTS.txt. With a harness hint that harness is tried first (a violation found by one harness
# of the property is a violation found by the property's quick check); MISSED is only ever recorded
# after the complete quick check.
cd /verif
out=seeded/RESULTS.txt
seeds="$@"; [ -z "$seeds" ] && seeds=$(ls seeded | grep '^C')
for item in $seeds; do
  sd=${item%%:*}; hint=""; [ "$item" != "$sd" ] && hint=${item#*:}
  prop=${sd%-*}
  log=$(mktemp /tmp/matrix-XXXX)
  v=""
  if [ -n "$hint" ]; then
    tools/try_seed_wt.sh seeded/$sd $prop --harness $hint > $log 2>&1
    grep -q "^VIOLATION" $log && v=CAUGHT
  fi
  if [ -z "$v" ]; then
    tools/try_seed_wt.sh seeded/$sd $prop > $log 2>&1
    if grep -q "^VIOLATION" $log; then v=CAUGHT; elif grep -q "^OK property" $log; then v=MISSED; else v=INCONCLUSIVE; fi
  fi
  case $v in
    CAUGHT) det=$(grep "counterexample" $log | head -1 | sed 's/.*harness=\([A-Za-z0-9_]*\) label="\([^"]*\)".*/\1: \2/');;
    MISSED) det="";;
    *) det=$(grep INCONCLUSIVE $log | head -1 | cut -c1-160);;
  esac
  grep -v "^$sd " $out > $out.tmp 2>/dev/null; mv $out.tmp $out 2>/dev/null
  echo "$sd $prop $v $det" >> $out
  rm -f $log
done
sort -o $out $out
