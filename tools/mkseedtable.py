#!/usr/bin/env python3
"""Regenerates the seed table in DESIGN.md (between the SEED TABLE markers) from seeded/*/meta.json and seeded/RESULTS.txt."""
import json, os, glob
root = os.path.dirname(os.path.dirname(os.path.abspath(__file__)))
res = {}
rp = os.path.join(root, "seeded", "RESULTS.txt")
if os.path.exists(rp):
    for l in open(rp):
        parts = l.rstrip("\n").split(" ", 3)
        if len(parts) >= 3:
            res[parts[0]] = (parts[2], parts[3] if len(parts) > 3 else "")
out = ["| seed | property | change (file) | needs | quick check verdict | caught by |", "|---|---|---|---|---|---|"]
def short(s, n):
    s = " ".join(s.split())
    return s if len(s) <= n else s[:n - 1].rsplit(" ", 1)[0] + " ..."
for d in sorted(glob.glob(os.path.join(root, "seeded", "C*"))):
    sid = os.path.basename(d)
    m = json.load(open(os.path.join(d, "meta.json")))
    v, det = res.get(sid, ("not run", ""))
    out.append("| %s | %s | %s (%s) | %s | %s | %s |" % (sid, m["property"], short(m["summary"], 220).replace("|", "/"), ", ".join(m.get("files_changed", [])), short(m["needs"], 160).replace("|", "/"), v, det.replace("|", "/") or "-"))
n = len([1 for v in res.values() if v[0] == "CAUGHT"])
out.append("")
out.append("%d of %d seeded changes are caught by the quick check of their property (exit 1, natively reproduced counterexample)." % (n, len(res)))
p = os.path.join(root, "DESIGN.md")
s = open(p).read()
b, e = "<!-- BEGIN SEED TABLE -->", "<!-- END SEED TABLE -->"
i, j = s.index(b), s.index(e)
s = s[:i + len(b)] + "\n" + "\n".join(out) + "\n" + s[j:]
open(p, "w").write(s)
print("seed table:", len(res), "results,", n, "caught")
