#!/usr/bin/env python3
# usage: addspec.py <prop> <pkg> <fn> <what> [--covers a,b] [--quick k=v,..] [--thorough k=v,..] [--budget N] [--maxdec N] [--unwindviol]
import json, sys, argparse
ap = argparse.ArgumentParser()
ap.add_argument('prop'); ap.add_argument('pkg'); ap.add_argument('fn'); ap.add_argument('what')
ap.add_argument('--covers', default=''); ap.add_argument('--quick', default=''); ap.add_argument('--thorough', default='')
ap.add_argument('--budget', type=int, default=0); ap.add_argument('--maxdec', type=int, default=0)
ap.add_argument('--qbudget', type=int, default=0)
ap.add_argument('--replay-timeout', type=int, default=0)
ap.add_argument('--unwindviol', action='store_true')
a = ap.parse_args()
def kv(s):
    return {k: int(v) for k, v in (x.split('=') for x in s.split(',') if x)}
p = '/verif/harness/specs.json'
s = json.load(open(p))
ps = s.setdefault(a.prop, {"harnesses": [], "assumptions": [], "outside_claim": []})
h = {"pkg": a.pkg, "fn": a.fn, "what": a.what}
if a.covers: h["covers"] = a.covers.split(',')
q = {}; t = {}
if a.quick: q["params"] = kv(a.quick)
if a.thorough: t["params"] = kv(a.thorough)
if a.maxdec: q["max_decisions"] = a.maxdec; t["max_decisions"] = a.maxdec
if a.budget: t["budget_s"] = a.budget
if a.qbudget: q["budget_s"] = a.qbudget
if q: h["quick"] = q
if t: h["thorough"] = t
if a.unwindviol: h["unwind_is_violation"] = True
if a.replay_timeout: h["replay_timeout_s"] = a.replay_timeout
ps["harnesses"] = [x for x in ps["harnesses"] if x["fn"] != a.fn] + [h]
json.dump(s, open(p, 'w'), indent=1)
print("ok", a.prop, a.fn)
