#!/bin/sh
# usage: check.sh <property id> <quick|thorough>
cd "$(dirname "$0")"
if [ ! -x bin/verif ] || [ -n "$(find engine -name '*.go' -newer bin/verif 2>/dev/null | head -1)" ]; then
  ./setup.sh >/dev/null 2>&1 || { echo "INCONCLUSIVE property=$1 engine build failed"; exit 2; }
fi
exec ./bin/verif check "$1" --tier "${2:-quick}"
